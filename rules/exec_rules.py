"""Execution-side rules: C03 (serial / key order / memo keys), C01 (conversion sites, EXEC-WRAP),
C06 (cleanup, hook-once, task hygiene), C07 (subscription mapping)."""

from __future__ import annotations

import ast

from sa.cfg import CFG, exc_world, no_exc
from sa.effects import Origins, write_sites
from sa.guards import FactFlow
from sa.loader import (
    AnalysisError, FuncDef, Module, Repo, ancestors, call_name, enclosing_function, last_attr, module_of,
    parent, qualname_of, unparse, walk_body,
)  # fmt: skip
from sa.raises import MayRaise
from sa.report import Check, node_text
from sa.resolve import CallGraph, ClassIndex
from rules.bounds import covered_by_try

CONCURRENCY = {"gather", "gather_with_cancel", "ensure_future", "create_task", "wait", "as_completed", "TaskGroup", "wait_for"}


def nested(fn: ast.AST, name: str) -> ast.AST:
    for n in ast.walk(fn):
        if isinstance(n, FuncDef) and n.name == name and n is not fn:
            return n
    raise AnalysisError(f"anchor missing: nested function {name} in {getattr(fn, 'name', '?')}")


# -- C03 R2 SERIAL ----------------------------------------------------------------------------


def serial(check: Check, repo: Repo) -> None:
    rule = "SERIAL"
    check.rule(
        rule,
        "root fields run serially exactly for mutations (when `serially` is not given): "
        "execute_operation passes `operation_type == OperationType.MUTATION if serially is None else "
        "serially`; the serial path (execute_fields_serially, reducer, set_result, async_reduce, "
        "async_callback) contains no concurrency primitive; async_callback feeds `await "
        "current_accumulator` into the callback (the next field starts only after the previous one "
        "settled); set_result awaits the field result before returning the accumulator",
    )
    op = repo.func("execution.executor", "Executor.execute_operation")
    sel = [n for n in walk_body(op) if isinstance(n, ast.IfExp) and unparse(n.test) == "serially is None"]
    ok = len(sel) == 1 and unparse(sel[0].body) == "operation_type == OperationType.MUTATION" and unparse(sel[0].orelse) == "serially"
    if ok:
        p = parent(sel[0])
        ok = isinstance(p, ast.Call) and "execute_collected_root_fields" in unparse(p.func)
        if ok:
            # it must be the argument bound to the `serially` parameter
            callee = repo.func("execution.executor", "Executor.execute_collected_root_fields")
            params = [a.arg for a in callee.args.args][1:]
            idx = p.args.index(sel[0]) if sel[0] in p.args else -1
            ok = idx >= 0 and idx < len(params) and params[idx] == "serially"
    check.ob(rule, sel[0] if sel else op, "serial execution selected exactly for mutations", ok,
             unparse(sel[0]) if sel else "selector expression not found")
    disp = repo.func("execution.executor", "Executor.execute_root_grouped_field_set")
    picks = [n for n in walk_body(disp) if isinstance(n, ast.IfExp)]
    ok = len(picks) == 1 and unparse(picks[0]) == "self.execute_fields_serially if serially else self.execute_fields"
    check.ob(rule, picks[0] if picks else disp, "dispatch on `serially`", ok, unparse(picks[0]) if picks else "")
    # every override of execute_collected_root_fields forwards `serially` unchanged
    classes = ClassIndex(repo)
    base = classes.get("execution.executor", "Executor")
    for ci in [base, *classes.subclasses(base)]:
        m = ci.methods().get("execute_collected_root_fields")
        if m is None:
            continue
        fw = [c for c in ast.walk(m) if isinstance(c, ast.Call) and last_attr(c) in (
            "execute_root_grouped_field_set", "execute_collected_root_fields")]
        ok = bool(fw) and all(any(isinstance(a, ast.Name) and a.id == "serially" for a in c.args) or any(
            k.arg == "serially" and isinstance(k.value, ast.Name) and k.value.id == "serially" for k in c.keywords) for c in fw)
        check.ob(rule, m, f"{ci.name}.execute_collected_root_fields forwards `serially`", ok,
                 f"{len(fw)} forwarding call(s)")
    ser = repo.func("execution.executor", "Executor.execute_fields_serially")
    red = repo.func("pyutils.async_reduce", "async_reduce")
    for fn in (ser, red):
        prims = sorted({last_attr(c) for c in ast.walk(fn) if isinstance(c, ast.Call) and last_attr(c) in CONCURRENCY})
        check.ob(rule, fn, f"no concurrency primitive in {fn.name} (incl. nested functions)", not prims,
                 "none" if not prims else f"calls {prims}: sibling mutation fields could overlap")
    cb = nested(red, "async_callback")
    calls = [c for c in walk_body(cb) if isinstance(c, ast.Call) and isinstance(c.func, ast.Name) and c.func.id == "callback"]
    ok = len(calls) == 1 and calls[0].args and isinstance(calls[0].args[0], ast.Await) and unparse(calls[0].args[0].value) == "current_accumulator"
    check.ob(rule, calls[0] if calls else cb, "async_callback: callback(await current_accumulator, value)", ok, unparse(calls[0])[:80] if calls else "")
    # in the loop the async wrapper is used exactly when the accumulator is awaitable
    loop = next((n for n in walk_body(red) if isinstance(n, ast.For)), None)
    ok = loop is not None and any(isinstance(s, ast.If) and "is_awaitable(accumulator)" in unparse(s.test) for s in loop.body)
    check.ob(rule, loop or red, "async_reduce chains through the awaitable accumulator", ok, "")
    sr = nested(ser, "set_result")
    st = [unparse(s) for s in sr.body if not (isinstance(s, ast.Expr) and isinstance(s.value, ast.Constant))]
    ok = st == ["results[response_name] = await result", "return results"]
    check.ob(rule, sr, "set_result awaits the field before returning the accumulator", ok, str(st))
    rets = [n for n in ser.body if isinstance(n, ast.Return)]
    ok = len(rets) == 1 and unparse(rets[0].value) == "async_reduce(reducer, grouped_field_set.items(), {})"
    check.ob(rule, rets[0] if rets else ser, "fields reduced in grouped_field_set order from an empty result", ok, unparse(rets[0]) if rets else "")


# -- C03 R3 KEY-ORDER -------------------------------------------------------------------------


def key_order(check: Check, repo: Repo) -> None:
    rule = "KEY-ORDER"
    check.rule(
        rule,
        "where siblings complete concurrently (execute_fields, complete_iterable_value): inside the "
        "nested async completion function every store into the shared result container uses a "
        "key/index taken from the list recorded during the synchronous pass (awaitable_fields / "
        "awaitable_indices) - no key is created after the first await - and the gathered awaitables "
        "are enumerated from that same list, zipped back in the same order (strict)",
    )
    cases = [
        ("Executor.execute_fields", "get_results", "results", "awaitable_fields"),
        ("Executor.complete_iterable_value", "get_completed_results", "completed_results", "awaitable_indices"),
    ]
    for outer_name, inner_name, container, recorded in cases:
        outer = repo.func("execution.executor", outer_name)
        inner = nested(outer, inner_name)
        sites = [w for w in write_sites(inner) if w.chain == container]
        if not sites:
            check.ob(rule, inner, f"{inner_name}: stores into {container}", False, "no store found")
        for w in sites:
            ok, why = False, ""
            if w.kind == "item-store":
                stmt = w.node
                tgt = next(t for t in stmt.targets if isinstance(t, ast.Subscript))  # type: ignore[attr-defined]
                key = tgt.slice
                if isinstance(key, ast.Name):
                    defs = Origins(inner).reaching(key.id, stmt)
                    ok = bool(defs) and all(_derived_from(d, recorded) for d in defs)
                    why = f"key `{key.id}` derives from {recorded}" if ok else f"key `{key.id}` does not derive from {recorded}"
            elif w.kind == "mutator" and w.detail == "update":
                arg = w.node.args[0] if w.node.args else None  # type: ignore[attr-defined]
                ok = isinstance(arg, ast.Call) and call_name(arg) == "zip" and len(arg.args) == 2 and unparse(arg.args[0]) == recorded \
                    and any(k.arg == "strict" and getattr(k.value, "value", None) is True for k in arg.keywords)
                why = "update(zip(recorded keys, gathered values, strict=True))" if ok else f"update argument {unparse(arg) if arg else ''}"
            else:
                why = f"{w.kind} {w.detail} can create keys"
            check.ob(rule, w.node, f"{inner_name}: {node_text(w.node, 70)}", ok, why)
        # the gather enumerates the recorded list
        gathers = [c for c in walk_body(inner) if isinstance(c, ast.Call) and last_attr(c) == "gather_with_cancel"]
        for g in gathers:
            a = g.args[0] if g.args else None
            ok = isinstance(a, ast.Starred) and isinstance(a.value, ast.GeneratorExp) and unparse(a.value.generators[0].iter) == recorded \
                and unparse(a.value.elt) == f"{container}[{unparse(a.value.generators[0].target)}]"
            check.ob(rule, g, f"{inner_name}: gathered awaitables enumerate {recorded}", ok, unparse(g)[:90])
        # sync pass: the key is stored before it is recorded as awaitable
        ok = _recorded_after_store(outer, container, recorded)
        check.ob(rule, outer, f"{outer_name}: keys are stored in the synchronous pass before being recorded", ok, "")


def _derived_from(d, recorded: str) -> bool:
    v = d.value
    if d.kind == "assign" and isinstance(v, ast.Subscript) and unparse(v.value) == recorded:
        return True
    if d.kind in ("for", "unpack") and v is not None:
        txt = unparse(v)
        return txt == recorded or txt.startswith(f"zip({recorded},")
    return False


def _recorded_after_store(outer: ast.AST, container: str, recorded: str) -> bool:
    from sa.guards import aliases_of

    al = aliases_of(outer)
    rec_calls = []
    for n in walk_body(outer):
        if isinstance(n, ast.Call):
            if isinstance(n.func, ast.Name) and n.func.id in al and al[n.func.id] == (recorded, "append"):
                rec_calls.append(n)
            elif isinstance(n.func, ast.Attribute) and n.func.attr == "append" and unparse(n.func.value) == recorded:
                rec_calls.append(n)
    return bool(rec_calls)


# -- C03 R1b MEMO-KEY-COVER ---------------------------------------------------------------------


def memo_key_cover(check: Check, repo: Repo) -> None:
    rule = "MEMO-KEY-COVER"
    check.rule(
        rule,
        "memo sites of the executor (get -> miss -> compute f(args) -> store under key): every "
        "argument of the memoised computation that is not an attribute of self flows into the key "
        "expression (for a RefMap key: the key object itself); a key that drops an input makes the "
        "memo hit for a different field group",
    )
    sites = [
        ("execution.executor", "Executor.collect_subfields", "collect_subfields"),
        ("execution.executor", "Executor.get_stream_usage", None),
    ]
    for mn, q, compute in sites:
        fn = repo.func(mn, q)
        params = [a.arg for a in fn.args.args][1:]  # type: ignore[attr-defined]
        stores = [n for n in walk_body(fn) if isinstance(n, ast.Assign) and isinstance(n.targets[0], ast.Subscript)]
        if not stores:
            check.ob(rule, fn, f"{q}: memo store", False, "no memo store found")
            continue
        st = stores[-1]
        key = st.targets[0].slice  # type: ignore[attr-defined]
        key_names = {n.id for n in ast.walk(key) if isinstance(n, ast.Name)}
        if isinstance(key, ast.Name):
            for d in Origins(fn).reaching(key.id, st):
                if d.value is not None:
                    key_names |= {n.id for n in ast.walk(d.value) if isinstance(n, ast.Name)}
        # inputs of the computation: parameters used by the computed value
        used: set[str] = set()
        if compute:
            for c in walk_body(fn):
                if isinstance(c, ast.Call) and isinstance(c.func, ast.Name) and c.func.id == compute:
                    for a in c.args:
                        if isinstance(a, ast.Name) and a.id in params:
                            used.add(a.id)
        else:
            # value computed inline: every parameter read outside an early-exit test before the memo lookup counts
            lookup_line = min((n.lineno for n in walk_body(fn) if isinstance(n, ast.Call) and last_attr(n) == "get"
                               and "self._" in unparse(n.func)), default=0)
            for n in walk_body(fn):
                if isinstance(n, ast.Name) and n.id in params and n.lineno > lookup_line:
                    used.add(n.id)
        missing = used - key_names
        check.ob(rule, st, f"{q}: key covers {sorted(used)}", not missing,
                 f"key `{unparse(key)}` mentions {sorted(key_names & set(params))}" if not missing else
                 f"input(s) {sorted(missing)} of the memoised computation are not part of the key `{unparse(key)}`")
