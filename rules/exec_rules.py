"""Execution-side rules: C03 (serial / key order / memo keys), C01 (conversion sites, EXEC-WRAP),
C06 (cleanup, hook-once, task hygiene), C07 (subscription mapping)."""

from __future__ import annotations

import ast

from sa.cfg import CFG, exc_world, no_exc
from sa.effects import Origins, write_sites
from sa.guards import FactFlow
from sa.loader import (
    AnalysisError, FuncDef, Module, Repo, ancestors, call_name, enclosing_function, last_attr, module_of,
    parent, qualname_of, unparse, walk_body,
)  # fmt: skip
from sa.raises import MayRaise
from sa.report import Check, node_text
from sa.resolve import CallGraph, ClassIndex
from rules.bounds import covered_by_try

CONCURRENCY = {"gather", "gather_with_cancel", "ensure_future", "create_task", "wait", "as_completed", "TaskGroup", "wait_for"}


def nested(fn: ast.AST, name: str) -> ast.AST:
    for n in ast.walk(fn):
        if isinstance(n, FuncDef) and n.name == name and n is not fn:
            return n
    raise AnalysisError(f"anchor missing: nested function {name} in {getattr(fn, 'name', '?')}")


# -- C03 R2 SERIAL ----------------------------------------------------------------------------


def serial(check: Check, repo: Repo) -> None:
    rule = "SERIAL"
    check.rule(
        rule,
        "root fields run serially exactly for mutations (when `serially` is not given): "
        "execute_operation passes `operation_type == OperationType.MUTATION if serially is None else "
        "serially`; the serial path (execute_fields_serially, reducer, set_result, async_reduce, "
        "async_callback) contains no concurrency primitive; async_callback feeds `await "
        "current_accumulator` into the callback (the next field starts only after the previous one "
        "settled); set_result awaits the field result before returning the accumulator",
    )
    op = repo.func("execution.executor", "Executor.execute_operation")
    sel = [n for n in walk_body(op) if isinstance(n, ast.IfExp) and unparse(n.test) == "serially is None"]
    ok = len(sel) == 1 and unparse(sel[0].body) == "operation_type == OperationType.MUTATION" and unparse(sel[0].orelse) == "serially"
    if ok:
        p = parent(sel[0])
        ok = isinstance(p, ast.Call) and "execute_collected_root_fields" in unparse(p.func)
        if ok:
            # it must be the argument bound to the `serially` parameter
            callee = repo.func("execution.executor", "Executor.execute_collected_root_fields")
            params = [a.arg for a in callee.args.args][1:]
            idx = p.args.index(sel[0]) if sel[0] in p.args else -1
            ok = idx >= 0 and idx < len(params) and params[idx] == "serially"
    check.ob(rule, sel[0] if sel else op, "serial execution selected exactly for mutations", ok,
             unparse(sel[0]) if sel else "selector expression not found")
    disp = repo.func("execution.executor", "Executor.execute_root_grouped_field_set")
    picks = [n for n in walk_body(disp) if isinstance(n, ast.IfExp)]
    ok = len(picks) == 1 and unparse(picks[0]) == "self.execute_fields_serially if serially else self.execute_fields"
    check.ob(rule, picks[0] if picks else disp, "dispatch on `serially`", ok, unparse(picks[0]) if picks else "")
    # every override of execute_collected_root_fields forwards `serially` unchanged
    classes = ClassIndex(repo)
    base = classes.get("execution.executor", "Executor")
    for ci in [base, *classes.subclasses(base)]:
        m = ci.methods().get("execute_collected_root_fields")
        if m is None:
            continue
        fw = [c for c in ast.walk(m) if isinstance(c, ast.Call) and last_attr(c) in (
            "execute_root_grouped_field_set", "execute_collected_root_fields")]
        ok = bool(fw) and all(any(isinstance(a, ast.Name) and a.id == "serially" for a in c.args) or any(
            k.arg == "serially" and isinstance(k.value, ast.Name) and k.value.id == "serially" for k in c.keywords) for c in fw)
        check.ob(rule, m, f"{ci.name}.execute_collected_root_fields forwards `serially`", ok,
                 f"{len(fw)} forwarding call(s)")
    ser = repo.func("execution.executor", "Executor.execute_fields_serially")
    red = repo.func("pyutils.async_reduce", "async_reduce")
    for fn in (ser, red):
        prims = sorted({last_attr(c) for c in ast.walk(fn) if isinstance(c, ast.Call) and last_attr(c) in CONCURRENCY})
        check.ob(rule, fn, f"no concurrency primitive in {fn.name} (incl. nested functions)", not prims,
                 "none" if not prims else f"calls {prims}: sibling mutation fields could overlap")
    cb = nested(red, "async_callback")
    calls = [c for c in walk_body(cb) if isinstance(c, ast.Call) and isinstance(c.func, ast.Name) and c.func.id == "callback"]
    ok = False
    if len(calls) == 1 and calls[0].args:
        a0 = calls[0].args[0]
        if isinstance(a0, ast.Await) and unparse(a0.value) == "current_accumulator":
            ok = True
        elif isinstance(a0, ast.Name):
            defs = Origins(cb).reaching(a0.id, calls[0])
            ok = bool(defs) and all(d.kind == "assign" and isinstance(d.value, ast.Await)
                                    and unparse(d.value.value) == "current_accumulator" for d in defs)
    check.ob(rule, calls[0] if calls else cb, "async_callback: callback(await current_accumulator, value)", ok, unparse(calls[0])[:80] if calls else "")
    # in the loop the async wrapper is used exactly when the accumulator is awaitable
    loop = next((n for n in walk_body(red) if isinstance(n, ast.For)), None)
    ok = loop is not None and any(isinstance(s, ast.If) and "is_awaitable(accumulator)" in unparse(s.test) for s in loop.body)
    check.ob(rule, loop or red, "async_reduce chains through the awaitable accumulator", ok, "")
    sr = nested(ser, "set_result")
    st = [unparse(s) for s in sr.body if not (isinstance(s, ast.Expr) and isinstance(s.value, ast.Constant))]
    cfg = CFG(sr)
    aw = lambda m: m.ast is not None and m.kind in ("stmt", "return") and any(  # noqa: E731
        isinstance(x, ast.Await) and unparse(x.value) == "result" for x in ast.walk(m.ast))
    bad = cfg.find_path(cfg.entry, lambda m: m is cfg.exit, follow=no_exc, avoid=aw)
    stores = [w for w in write_sites(sr) if w.chain == "results" and w.kind == "item-store"]
    ok = bad is None and len(stores) == 1 and "response_name" in unparse(stores[0].node)
    check.ob(rule, sr, "set_result awaits the field before returning the accumulator", ok, str(st))
    rets = [n for n in ser.body if isinstance(n, ast.Return)]
    ok = len(rets) == 1 and unparse(rets[0].value) == "async_reduce(reducer, grouped_field_set.items(), {})"
    check.ob(rule, rets[0] if rets else ser, "fields reduced in grouped_field_set order from an empty result", ok, unparse(rets[0]) if rets else "")


# -- C03 R3 KEY-ORDER -------------------------------------------------------------------------


def key_order(check: Check, repo: Repo) -> None:
    rule = "KEY-ORDER"
    check.rule(
        rule,
        "where siblings complete concurrently (execute_fields, complete_iterable_value): inside the "
        "nested async completion function every store into the shared result container uses a "
        "key/index taken from the list recorded during the synchronous pass (awaitable_fields / "
        "awaitable_indices) - no key is created after the first await - and the gathered awaitables "
        "are enumerated from that same list, zipped back in the same order (strict)",
    )
    cases = [
        ("Executor.execute_fields", "get_results", "results", "awaitable_fields"),
        ("Executor.complete_iterable_value", "get_completed_results", "completed_results", "awaitable_indices"),
    ]
    for outer_name, inner_name, container, recorded in cases:
        outer = repo.func("execution.executor", outer_name)
        inner = nested(outer, inner_name)
        sites = [w for w in write_sites(inner) if w.chain == container]
        if not sites:
            check.ob(rule, inner, f"{inner_name}: stores into {container}", False, "no store found")
        for w in sites:
            ok, why = False, ""
            if w.kind == "item-store":
                stmt = w.node
                tgt = next(t for t in stmt.targets if isinstance(t, ast.Subscript))  # type: ignore[attr-defined]
                key = tgt.slice
                if isinstance(key, ast.Name):
                    defs = Origins(inner).reaching(key.id, stmt)
                    ok = bool(defs) and all(_derived_from(d, recorded) for d in defs)
                    why = f"key `{key.id}` derives from {recorded}" if ok else f"key `{key.id}` does not derive from {recorded}"
            elif w.kind == "mutator" and w.detail == "update":
                arg = w.node.args[0] if w.node.args else None  # type: ignore[attr-defined]
                ok = isinstance(arg, ast.Call) and call_name(arg) == "zip" and len(arg.args) == 2 and unparse(arg.args[0]) == recorded \
                    and any(k.arg == "strict" and getattr(k.value, "value", None) is True for k in arg.keywords)
                why = "update(zip(recorded keys, gathered values, strict=True))" if ok else f"update argument {unparse(arg) if arg else ''}"
            else:
                why = f"{w.kind} {w.detail} can create keys"
            check.ob(rule, w.node, f"{inner_name}: {node_text(w.node, 70)}", ok, why)
        # the gather enumerates the recorded list
        gathers = [c for c in walk_body(inner) if isinstance(c, ast.Call) and last_attr(c) == "gather_with_cancel"]
        for g in gathers:
            a = g.args[0] if g.args else None
            ok = isinstance(a, ast.Starred) and isinstance(a.value, ast.GeneratorExp) and unparse(a.value.generators[0].iter) == recorded \
                and unparse(a.value.elt) == f"{container}[{unparse(a.value.generators[0].target)}]"
            check.ob(rule, g, f"{inner_name}: gathered awaitables enumerate {recorded}", ok, unparse(g)[:90])
        # sync pass: the key is stored before it is recorded as awaitable
        ok = _recorded_after_store(outer, container, recorded)
        check.ob(rule, outer, f"{outer_name}: keys are stored in the synchronous pass before being recorded", ok, "")


def _derived_from(d, recorded: str) -> bool:
    v = d.value
    if d.kind == "assign" and isinstance(v, ast.Subscript) and unparse(v.value) == recorded:
        return True
    if d.kind in ("for", "unpack") and v is not None:
        txt = unparse(v)
        return txt == recorded or txt.startswith(f"zip({recorded},")
    return False


def _recorded_after_store(outer: ast.AST, container: str, recorded: str) -> bool:
    from sa.guards import aliases_of

    al = aliases_of(outer)
    rec_calls = []
    for n in walk_body(outer):
        if isinstance(n, ast.Call):
            if isinstance(n.func, ast.Name) and n.func.id in al and al[n.func.id] == (recorded, "append"):
                rec_calls.append(n)
            elif isinstance(n.func, ast.Attribute) and n.func.attr == "append" and unparse(n.func.value) == recorded:
                rec_calls.append(n)
    return bool(rec_calls)


# -- C03 R1b MEMO-KEY-COVER ---------------------------------------------------------------------


def memo_key_cover(check: Check, repo: Repo) -> None:
    rule = "MEMO-KEY-COVER"
    check.rule(
        rule,
        "memo sites of the executor (get -> miss -> compute f(args) -> store under key): every "
        "argument of the memoised computation that is not an attribute of self flows into the key "
        "expression (for a RefMap key: the key object itself); a key that drops an input makes the "
        "memo hit for a different field group",
    )
    sites = [
        ("execution.executor", "Executor.collect_subfields", "collect_subfields"),
        ("execution.executor", "Executor.get_stream_usage", None),
    ]
    for mn, q, compute in sites:
        fn = repo.func(mn, q)
        params = [a.arg for a in fn.args.args][1:]  # type: ignore[attr-defined]
        stores = [n for n in walk_body(fn) if isinstance(n, ast.Assign) and isinstance(n.targets[0], ast.Subscript)]
        if not stores:
            check.ob(rule, fn, f"{q}: memo store", False, "no memo store found")
            continue
        st = stores[-1]
        key = st.targets[0].slice  # type: ignore[attr-defined]
        # every alternative of the key expression (arms of conditional expressions, each
        # reaching definition of a key local) must cover the inputs on its own
        def arms(e: ast.AST) -> list[ast.AST]:
            if isinstance(e, ast.IfExp):
                return arms(e.body) + arms(e.orelse)
            return [e]

        alternatives: list[ast.AST] = []
        if isinstance(key, ast.Name):
            for d in Origins(fn).reaching(key.id, st):
                if d.value is not None:
                    alternatives += arms(d.value)
        if not alternatives:
            alternatives = arms(key)
        arm_names = [{n.id for n in ast.walk(a) if isinstance(n, ast.Name)} for a in alternatives]
        key_names = set.intersection(*arm_names) if arm_names else set()
        # inputs of the computation: parameters used by the computed value
        used: set[str] = set()
        if compute:
            for c in walk_body(fn):
                if isinstance(c, ast.Call) and isinstance(c.func, ast.Name) and c.func.id == compute:
                    for a in c.args:
                        if isinstance(a, ast.Name) and a.id in params:
                            used.add(a.id)
        else:
            # value computed inline: every parameter read outside an early-exit test before the memo lookup counts
            lookup_line = min((n.lineno for n in walk_body(fn) if isinstance(n, ast.Call) and last_attr(n) == "get"
                               and "self._" in unparse(n.func)), default=0)
            for n in walk_body(fn):
                if isinstance(n, ast.Name) and n.id in params and n.lineno > lookup_line:
                    used.add(n.id)
        missing = used - key_names
        check.ob(rule, st, f"{q}: key covers {sorted(used)}", not missing,
                 f"key `{unparse(key)}` mentions {sorted(key_names & set(params))}" if not missing else
                 f"input(s) {sorted(missing)} of the memoised computation are not part of the key `{unparse(key)}`")


# -- C06 R2 HOOK-ONCE --------------------------------------------------------------------------

HOOK = "run_async_work_finished_hook"


class HookCounter:
    """Path-count analysis {0,1,>=2} of hook discharges on the typed CFG of a function.

    Exceptional edges come from explicit raises and from calls whose may-raise summary (explicit
    raises, transitively, minus local handlers) is non-empty; an `await` of an unresolved value may
    raise Exception.  BaseException-only exits (task cancellation by the caller) are outside C06's
    stop kinds and not modelled.
    """

    def __init__(self, repo: Repo) -> None:
        self.repo = repo
        self.classes = ClassIndex(repo)
        self.cg = CallGraph(repo, self.classes)
        self.mr = MayRaise(repo, self.classes, self.cg)
        self._normal: dict[ast.AST, set[int]] = {}
        self._active: set[ast.AST] = set()
        self.witness: dict[ast.AST, str] = {}

    # resolution of a call to its target functions (self.m, super().m, local constructor receivers, nested defs)
    def targets(self, call: ast.Call, fn: ast.AST) -> list[ast.AST]:
        out = [t for c, t in self.cg.callees(_outermost(fn)) if c is call]
        if out:
            return out
        f = call.func
        if isinstance(f, ast.Name):
            for n in ast.walk(_outermost(fn)):
                if isinstance(n, FuncDef) and n.name == f.id and n is not fn:
                    return [n]
        if isinstance(f, ast.Attribute):
            recv = f.value
            # super().m(...)
            if isinstance(recv, ast.Call) and isinstance(recv.func, ast.Name) and recv.func.id == "super":
                cls = _class_of(fn)
                ci = self.classes.by_node.get(cls) if cls is not None else None
                if ci is not None:
                    for b in self.classes.mro(ci)[1:]:
                        if f.attr in b.methods():
                            return [b.methods()[f.attr]]
            # x = ClassName(); x.m(...)
            if isinstance(recv, ast.Name):
                for n in walk_body(_outermost(fn)):
                    if isinstance(n, ast.Assign) and len(n.targets) == 1 and isinstance(n.targets[0], ast.Name) \
                            and n.targets[0].id == recv.id and isinstance(n.value, ast.Call) and isinstance(n.value.func, ast.Name):
                        ci = self.classes.resolve_class_expr(module_of(fn), n.value.func)
                        if ci is not None:
                            m = self.classes.find_method(ci, f.attr)
                            if m:
                                return [m[1]]
        return []

    def call_weight(self, call: ast.Call, fn: ast.AST) -> int:
        if last_attr(call) == HOOK:
            return 1
        if isinstance(call.func, ast.Name):
            # run_hook = self.run_async_work_finished_hook; run_hook()
            for a in walk_body(fn):
                if isinstance(a, ast.Assign) and len(a.targets) == 1 and isinstance(a.targets[0], ast.Name) \
                        and a.targets[0].id == call.func.id and isinstance(a.value, ast.Attribute) and a.value.attr == HOOK:
                    return 1
        w = 0
        for t in self.targets(call, fn):
            n = self.normal_counts(t)
            if n == {1}:
                w = max(w, 1)
            elif n and max(n) >= 2:
                w = 2
        return w

    def normal_counts(self, fn: ast.AST) -> set[int]:
        """Counts of hook discharges on the normal exits of fn (for generators / coroutines: of the
        body once it runs - the discharge is deferred to the object returned by the call)."""
        if fn in self._normal:
            return self._normal[fn]
        if fn in self._active:
            return {0}
        self._active.add(fn)
        res = self.analyse(fn)
        self._active.discard(fn)
        self._normal[fn] = res["exit"]
        return res["exit"]

    def oracle(self, fn: ast.AST):
        own_calls = None

        def classes_of(node: ast.AST) -> list[tuple[str, ast.AST]]:
            out: list[tuple[str, ast.AST]] = []
            if isinstance(node, ast.Raise):
                cls = self.mr.raise_class(node, fn)
                return [("Exception" if cls == "Any" else cls, node)]
            roots = [node]
            if isinstance(node, (ast.For, ast.AsyncFor)):
                roots = [node.iter]
            elif isinstance(node, (ast.With, ast.AsyncWith)):
                roots = [i.context_expr for i in node.items]
            elif isinstance(node, (ast.FunctionDef, ast.AsyncFunctionDef, ast.ClassDef, ast.ExceptHandler, ast.Try, ast.While, ast.match_case)):
                return []
            stack = list(roots)
            while stack:
                n = stack.pop()
                if isinstance(n, (ast.FunctionDef, ast.AsyncFunctionDef, ast.Lambda, ast.ClassDef)):
                    continue
                stack.extend(ast.iter_child_nodes(n))
                if isinstance(n, ast.Call):
                    awaited = isinstance(parent(n), ast.Await)
                    for t in self.targets(n, fn):
                        if isinstance(t, ast.AsyncFunctionDef) and not awaited:
                            continue
                        for cls in self.mr.summary(t):
                            out.append(("Exception" if cls == "Any" else cls, n))
                elif isinstance(n, ast.Await):
                    v = n.value
                    if not (isinstance(v, ast.Call) and self.targets(v, fn)):
                        out.append(("Exception", n))
                elif isinstance(n, (ast.Yield, ast.YieldFrom)):
                    out.append(("GeneratorExit", n))
                    out.append(("Exception", n))
            # de-duplicate
            seen, uniq = set(), []
            for cls, o in out:
                if (cls, id(o)) not in seen:
                    seen.add((cls, id(o)))
                    uniq.append((cls, o))
            return uniq

        return classes_of

    def analyse(self, fn: ast.AST) -> dict[str, set[int]]:
        cfg = CFG(fn, raise_oracle=self.oracle(fn), catches=self.mr.hier.catches)
        self._cfg = cfg
        counts: dict = {n: set() for n in cfg.nodes}
        origin_of: dict = {}
        counts[cfg.entry] = {0}
        work = [cfg.entry]

        def node_calls(n) -> list[ast.Call]:
            a = n.ast
            if a is None or n.kind in ("join", "finally", "handler", "def", "case"):
                return []
            roots = [a]
            if isinstance(a, (ast.For, ast.AsyncFor)):
                roots = [a.iter]
            elif isinstance(a, (ast.With, ast.AsyncWith)):
                roots = [i.context_expr for i in a.items]
            elif isinstance(a, ast.Match):
                roots = [a.subject]
            out = []
            stack = list(roots)
            while stack:
                x = stack.pop()
                if isinstance(x, (ast.FunctionDef, ast.AsyncFunctionDef, ast.Lambda, ast.ClassDef)):
                    continue
                stack.extend(ast.iter_child_nodes(x))
                if isinstance(x, ast.Call):
                    out.append(x)
            return out

        weights: dict = {}
        for n in cfg.nodes:
            weights[n] = [(c, self.call_weight(c, fn)) for c in node_calls(n)]
            weights[n] = [(c, w) for c, w in weights[n] if w]

        def before(n, origin) -> int:
            """weight discharged in node n before `origin` raised."""
            tot = 0
            for c, w in weights[n]:
                if origin is None:
                    tot += w
                elif c is origin:
                    continue
                elif isinstance(origin, ast.Raise):
                    tot += w
                elif _is_descendant(c, origin) or (c.end_lineno, c.end_col_offset) <= (origin.lineno, origin.col_offset):
                    tot += w
            return tot

        while work:
            n = work.pop()
            base = counts[n]
            full = sum(w for _, w in weights[n])
            for m, label in cfg.succ.get(n, []):
                if label and label[0] in ("exc", "excprop") and n.flavor and n.kind != "raise":
                    continue  # a failure of the cleanup sequence itself is not modelled
                if label and label[0] in ("exc", "excprop"):
                    origin = label[3] if len(label) > 3 else None
                    cls = label[2] if len(label) > 2 else "Exception"
                    add = before(n, origin)
                else:
                    add = full
                new = {min(2, b + add) for b in base}
                if not new <= counts[m]:
                    for v in new - counts[m]:
                        origin_of.setdefault((m, v), (n, label))
                    counts[m] |= new
                    work.append(m)
        self._last = (cfg, counts, origin_of)
        return {"exit": counts[cfg.exit], "rexit": counts[cfg.rexit]}

    def explain(self, which: str, count: int) -> str:
        cfg, counts, origin_of = self._last
        node = cfg.exit if which == "exit" else cfg.rexit
        steps = []
        cur, c = node, count
        seen = set()
        while (cur, c) in origin_of and (cur, c) not in seen and len(steps) < 12:
            seen.add((cur, c))
            prev, label = origin_of[(cur, c)]
            line = getattr(prev.ast, "lineno", None)
            if label and label[0] in ("exc", "excprop"):
                steps.append(f"line {line}: {label[2]} raised, not caught" if label[0] == "excprop" else f"line {line}: {label[2]} -> handler")
            elif line and prev.kind in ("return", "raise"):
                steps.append(f"line {line}: {prev.kind}")
            # find previous count
            pc = None
            for b in counts[prev]:
                pc = b if pc is None else min(pc, b)
            cur, c = prev, (pc if pc is not None else 0)
        return " <- ".join(steps[:6]) or "fall-through"


def _is_descendant(a: ast.AST, b: ast.AST) -> bool:
    return any(x is a for x in ast.walk(b)) and a is not b


def _outermost(fn: ast.AST) -> ast.AST:
    cur = fn
    while True:
        p = enclosing_function(cur)
        if p is None:
            return cur
        cur = p


def _class_of(fn: ast.AST) -> ast.ClassDef | None:
    p = parent(_outermost(fn))
    return p if isinstance(p, ast.ClassDef) else None


def hook_once(check: Check, repo: Repo) -> None:
    rule = "HOOK-ONCE"
    check.rule(
        rule,
        "from the operation entry points every path to an exit - normal return, exception leaving the "
        "function (explicit raises resolved through the call graph; awaits of unresolved values may raise "
        "Exception), generator closed at a yield - discharges the async_work_finished hook exactly once "
        "(directly, through a callee all of whose paths do, or by handing out a coroutine/generator whose "
        "body does); a discharge that lives only in the body of a *generator* is not reached when the "
        "generator is closed before its first step",
    )
    hc = HookCounter(repo)
    op = repo.func("execution.executor", "Executor.execute_operation")
    targets = [
        ("Executor.execute_operation", op, True),
        ("Executor.execute_operation.await_result", nested(op, "await_result"), True),
        ("Executor.build_response", repo.func("execution.executor", "Executor.build_response"), False),
        ("IncrementalExecutor.build_response",
         repo.func("execution.incremental.incremental_executor", "IncrementalExecutor.build_response"), False),
        ("IncrementalPublisher.build_response",
         repo.func("execution.incremental.incremental_publisher", "IncrementalPublisher.build_response"), False),
        ("IncrementalPublisher._subscribe",
         repo.func("execution.incremental.incremental_publisher", "IncrementalPublisher._subscribe"), True),
    ]
    for label, fn, with_exc in targets:
        res = hc.analyse(fn)
        for which in ("exit", "rexit"):
            if which == "rexit" and not with_exc:
                continue
            cs = res[which]
            if not cs:
                continue
            ok = cs == {1}
            what = "normal exits" if which == "exit" else "exceptional exits"
            detail = "hook discharged exactly once on every path"
            if not ok:
                bad = min(cs - {1}) if cs - {1} else 1
                detail = f"a path reaches the {what} with the hook discharged {bad if bad < 2 else '>= 2'} times: {hc.explain(which, bad)}"
            check.ob(rule, fn, f"{label}: {what}", ok, detail)
    # deferred discharge inside a generator body
    for label, fn, _ in targets:
        for c in walk_body(fn):
            if isinstance(c, ast.Call):
                for t in hc.targets(c, fn):
                    if isinstance(t, ast.AsyncFunctionDef) and any(isinstance(y, (ast.Yield, ast.YieldFrom)) for y in walk_body(t)) \
                            and hc.normal_counts(t) == {1} and not isinstance(parent(c), ast.Await):
                        check.ob(rule, c, f"{label}: discharge deferred to generator {t.name}", False,
                                 f"the hook (and the cleanup next to it) runs only in the `finally` of the async generator "
                                 f"{t.name}; closing the returned generator before its first step runs no `finally`")
    check.floor(rule, 8, "exit classes of the operation entry points")


# -- C06: task hygiene family ------------------------------------------------------------------

TRACKERS = {"track_incremental_future", "settle_in_background", "push", "add_done_callback", "put", "put_nowait"}


def _has_await(node_ast: ast.AST | None) -> bool:
    if node_ast is None:
        return False
    if isinstance(node_ast, (ast.AsyncFor, ast.AsyncWith)):
        return True
    if isinstance(node_ast, (ast.For, ast.With, ast.While, ast.Try, ast.If, ast.FunctionDef, ast.AsyncFunctionDef, ast.ClassDef, ast.Match)):
        roots = [node_ast.iter] if isinstance(node_ast, ast.For) else (
            [i.context_expr for i in node_ast.items] if isinstance(node_ast, ast.With) else [])
    else:
        roots = [node_ast]
    stack = list(roots)
    while stack:
        n = stack.pop()
        if isinstance(n, (ast.FunctionDef, ast.AsyncFunctionDef, ast.Lambda, ast.ClassDef)):
            continue
        if isinstance(n, (ast.Await, ast.Yield, ast.YieldFrom)):
            return True
        stack.extend(ast.iter_child_nodes(n))
    return False


def track_before_await(check: Check, repo: Repo, mods: list[Module]) -> None:
    rule = "TRACK-BEFORE-AWAIT"
    check.rule(
        rule,
        "a future handed to (or created in) an async function is registered in its tracking set before "
        "the function can suspend: no await lies on a path from the function entry to the statement "
        "that adds the future to a `self.<attr>` collection; otherwise an abort arriving while the "
        "function is parked never sees (cancels, settles) that future",
    )
    n = 0
    for mod in mods:
        for fn in mod.functions():
            if not isinstance(fn, ast.AsyncFunctionDef):
                continue
            regs = []
            aliases = {}
            for a in walk_body(fn):
                if isinstance(a, ast.Assign) and len(a.targets) == 1 and isinstance(a.targets[0], ast.Name) \
                        and isinstance(a.value, ast.Attribute) and unparse(a.value.value) == "self":
                    aliases[a.targets[0].id] = a.value.attr
            for c in walk_body(fn):
                if isinstance(c, ast.Call) and isinstance(c.func, ast.Attribute) and c.func.attr in ("add", "append") and len(c.args) == 1 \
                        and isinstance(c.args[0], ast.Name):
                    recv = c.func.value
                    attr = None
                    if isinstance(recv, ast.Attribute) and unparse(recv.value) == "self":
                        attr = recv.attr
                    elif isinstance(recv, ast.Name) and recv.id in aliases:
                        attr = aliases[recv.id]
                    if attr and ("future" in attr or "task" in attr or "pending" in attr):
                        regs.append((c, attr))
            if not regs:
                continue
            cfg = CFG(fn)
            for c, attr in regs:
                n += 1
                rnodes = cfg.node_for_expr(c)
                bad = cfg.find_path(cfg.entry, lambda m: m in rnodes, follow=no_exc,
                                    avoid=None)
                # is there a path entry -> (await node) -> registration ?
                awaits = [m for m in cfg.nodes if _has_await(m.ast) and m.kind not in ("def", "join", "finally", "handler")]
                hit = None
                for a in awaits:
                    if a in cfg.reachable([cfg.entry], follow=no_exc) and any(r in cfg.reachable([a], follow=no_exc) for r in rnodes) and a not in rnodes:
                        hit = a
                        break
                check.ob(rule, c, f"{fn.name}: {unparse(c)}", hit is None,
                         f"registered in self.{attr} before any suspension point" if hit is None else
                         f"the function may suspend at line {getattr(hit.ast, 'lineno', '?')} before `{unparse(c.args[0])}` is registered in self.{attr}")
    check.note(track_before_await_sites=n)


CANCEL_EXEMPT = {
    ("Computation.abort", "future"):
        "the pending future is registered by IncrementalExecutor.prime_now via track_incremental_future and is "
        "settled by cancel_incremental_work; abort() hands back the on_abort awaitable",
    ("IncrementalPublisher._subscribe", "next_batch"):
        "the raise enters the finally of _subscribe whose awaits (work_queue.cancel(), cancel_incremental_work()) run "
        "before the consumer is released; the events generator has no cleanup of its own",
}


def cancel_settle(check: Check, repo: Repo, mods: list[Module], floor: int = 8) -> None:
    rule = "CANCEL-SETTLE"
    check.rule(
        rule,
        "cancelling is not settling: after `.cancel()` on tasks/futures of a collection (or a single task) "
        "in a cleanup routine the same objects are awaited - directly or through gather(..., "
        "return_exceptions=True) / wait - on every path to the normal exit or to the re-raise, or they are "
        "handed to a tracker; pure waiter futures created from `<signal>.wait()` and results discarded "
        "with `ensure_future(x).cancel()` are exempt (nothing of the execution runs in them)",
    )
    n = 0
    for mod in mods:
        for fn in mod.functions():
            if isinstance(parent(fn), (*FuncDef,)) and False:
                continue
            cancels = [c for c in walk_body(fn) if isinstance(c, ast.Call) and isinstance(c.func, ast.Attribute) and c.func.attr == "cancel" and not c.args]
            if not cancels:
                continue
            cfg = None
            for c in cancels:
                recv = c.func.value
                if isinstance(recv, ast.Call):
                    check.ob(rule, c, f"{fn.name}: {node_text(c, 60)}", True, "discarded result: ensure_future(x).cancel()", nontrivial=False)
                    n += 1
                    continue
                if not isinstance(recv, ast.Name):
                    continue
                name = recv.id
                # what is being cancelled: loop variable over a collection, or a single task variable
                loop = next((a for a in ancestors(c) if isinstance(a, ast.For) and isinstance(a.target, ast.Name) and a.target.id == name), None)
                subject = unparse(loop.iter) if loop is not None else name
                # exemption: waiter futures `x = ensure_future(<something>.wait())`
                waiter = False
                for a in walk_body(fn):
                    if isinstance(a, ast.Assign) and len(a.targets) == 1 and isinstance(a.targets[0], ast.Name) and a.targets[0].id == name \
                            and isinstance(a.value, ast.Call) and last_attr(a.value) == "ensure_future" and a.value.args \
                            and isinstance(a.value.args[0], ast.Call) and last_attr(a.value.args[0]) == "wait" \
                            and "signal" in unparse(a.value.args[0].func):
                        waiter = True
                if waiter:
                    check.ob(rule, c, f"{fn.name}: {node_text(c, 60)}", True, "pure waiter on the abort signal", nontrivial=False)
                    n += 1
                    continue
                ex = CANCEL_EXEMPT.get((qualname_of(c), name))
                if ex:
                    check.ob(rule, c, f"{fn.name}: {node_text(c, 60)}", True, f"exempt (one named construct): {ex}", nontrivial=False)
                    n += 1
                    continue
                # containers the subject flows into: L.extend(subject) / L.append(name)
                carriers = {subject, name}
                for x in walk_body(fn):
                    if isinstance(x, ast.Call) and isinstance(x.func, ast.Attribute) and x.func.attr in ("extend", "append") and x.args \
                            and unparse(x.args[0]) in carriers and isinstance(x.func.value, ast.Name):
                        carriers.add(x.func.value.id)
                if not isinstance(fn, ast.AsyncFunctionDef):
                    # a synchronous function cannot await: it must return/hand over an awaitable that settles
                    txt = " ".join(unparse(s) for s in walk_body(fn) if isinstance(s, (ast.Return,)))
                    settle_fns = ("_settle_parked", "_cleanup", "_settle_pending", "settle_in_background", "gather")
                    ok = any(sf in txt for sf in settle_fns) or any(
                        isinstance(x, ast.Call) and last_attr(x) in ("settle_in_background", "track_incremental_future") for x in walk_body(fn))
                    check.ob(rule, c, f"{fn.name}: {node_text(c, 60)}", ok,
                             "synchronous function returns the settling awaitable" if ok else
                             f"`{subject}` is cancelled in a synchronous function that hands no settling awaitable back")
                    n += 1
                    continue
                cfg = cfg or CFG(fn)
                cn = cfg.node_for_expr(c)

                def settles(m) -> bool:
                    a = m.ast
                    if a is None or m.kind in ("join", "finally", "handler", "def"):
                        return False
                    for x in ast.walk(a if not isinstance(a, (ast.For, ast.AsyncFor)) else a.iter):
                        if isinstance(x, ast.Await):
                            t = unparse(x.value)
                            root = subject.split(" ")[0].lstrip("(").split("(")[-1]
                            if name in {y.id for y in ast.walk(x.value) if isinstance(y, ast.Name)}:
                                return True
                            if any(isinstance(y, ast.Name) and y.id == subject for y in ast.walk(x.value)):
                                return True
                            if subject in t or any(cr in {y.id for y in ast.walk(x.value) if isinstance(y, ast.Name)} for cr in carriers):
                                return True
                            if isinstance(x.value, ast.Call) and last_attr(x.value) in ("_settle_pending", "_settle_parked", "_cleanup"):
                                return True
                        if isinstance(x, ast.Call) and last_attr(x) in ("settle_in_background", "track_incremental_future") :
                            return True
                    return False

                def follow(a_, b_, label, _carriers=carriers):
                    if not no_exc(a_, b_, label):
                        return False
                    # `if <carrier>:` false edge = nothing to settle
                    if label and label[0] == "cond" and label[2] is False and _nonempty_subject(label[1]) in _carriers:
                        return False
                    return True

                bad = None
                for s in cn:
                    p = cfg.find_path(s, lambda m: m is cfg.exit or m.kind == "raise", follow=follow, avoid=settles)
                    if p is not None:
                        bad = p
                check.ob(rule, c, f"{fn.name}: {node_text(c, 60)}", bad is None,
                         f"`{subject}` is awaited/settled on every path after the cancel" if bad is None else
                         f"`{subject}` is cancelled but a path continues to {bad[-1].kind}@{getattr(bad[-1].ast, 'lineno', 'end')} without awaiting it: "
                         f"the caller is released while the cancelled work is still unwinding")
                n += 1
    check.floor(rule, floor, ".cancel() sites")


def _nonempty_subject(e: ast.AST) -> str | None:
    """X for the spellings of 'X is not empty': `X`, `len(X) > 0`, `len(X) != 0`, `len(X) >= 1`, `0 < len(X)`."""
    if isinstance(e, ast.Name):
        return e.id
    if isinstance(e, ast.Compare) and len(e.ops) == 1:
        l, r, op = e.left, e.comparators[0], e.ops[0]

        def is_len(x: ast.AST) -> str | None:
            return x.args[0].id if isinstance(x, ast.Call) and call_name(x) == "len" and len(x.args) == 1 and isinstance(x.args[0], ast.Name) else None

        def const(x: ast.AST):
            return x.value if isinstance(x, ast.Constant) else None

        if is_len(l) and ((isinstance(op, (ast.Gt, ast.NotEq)) and const(r) == 0) or (isinstance(op, ast.GtE) and const(r) == 1)):
            return is_len(l)
        if is_len(r) and ((isinstance(op, (ast.Lt, ast.NotEq)) and const(l) == 0) or (isinstance(op, ast.LtE) and const(l) == 1)):
            return is_len(r)
    return None


def cleanup_gather(check: Check, repo: Repo, mods: list[Module]) -> None:
    rule = "CLEANUP-GATHER"
    check.rule(
        rule,
        "every asyncio.gather(...) on a cleanup path passes return_exceptions=True (one failing cleanup "
        "cannot abandon the others); the single fail-fast gather is gather_with_cancel's first one, whose "
        "except handler performs the cancel-and-settle",
    )
    for mod in mods:
        for c in ast.walk(mod.tree):
            if isinstance(c, ast.Call) and last_attr(c) == "gather" and isinstance(c.func, ast.Name):
                ok = any(k.arg == "return_exceptions" and getattr(k.value, "value", None) is True for k in c.keywords)
                why = "return_exceptions=True"
                if not ok:
                    t = covered_by_try(c, {"Exception", "BaseException"})
                    ok = qualname_of(c) == "gather_with_cancel" and t is not None and any(
                        isinstance(x, ast.Call) and last_attr(x) == "gather" and any(k.arg == "return_exceptions" for k in x.keywords)
                        for h in t.handlers for x in ast.walk(h))
                    why = "fail-fast gather whose handler cancels and settles" if ok else "fail-fast gather on a cleanup path"
                check.ob(rule, c, f"{node_text(c, 60)} in {qualname_of(c)}", ok, why)
    check.floor(rule, 6, "gather calls")


def abort_result_used(check: Check, repo: Repo, mods: list[Module]) -> None:
    rule = "ABORT-RESULT-USED"
    check.rule(
        rule,
        "abort()/cancel-style methods that return the asynchronous remainder of the cleanup "
        "(AwaitableOrValue[None]) never have that result discarded: each call is awaited (after an "
        "is_awaitable test), collected for a gather, returned, or handed to a background settler",
    )
    classes = ClassIndex(repo)
    names = set()
    for mod in mods:
        for fn in mod.functions():
            if fn.name in ("abort", "on_abort") and fn.returns is not None and ("Awaitable" in unparse(fn.returns)):  # type: ignore[attr-defined]
                names.add(fn.name)  # type: ignore[attr-defined]
    for mod in mods:
        for c in ast.walk(mod.tree):
            if isinstance(c, ast.Call) and isinstance(c.func, ast.Attribute) and c.func.attr in names:
                p = parent(c)
                ok = not isinstance(p, ast.Expr)
                check.ob(rule, c, f"{node_text(c, 50)} in {qualname_of(c)}", ok,
                         "result is bound / returned / passed on" if ok else "result of the abort is discarded: its asynchronous cleanup is never awaited")
    check.floor(rule, 5, "abort call sites")


def fin_cleanup(check: Check, repo: Repo) -> None:
    rule = "FIN-CLEANUP"
    check.rule(
        rule,
        "_subscribe: once the event stream exists every exit (return, raise, generator close at the yield) "
        "passes `await work_queue.cancel()`, `await context.cancel_incremental_work()` and "
        "`context.run_async_work_finished_hook()` in that order (one finally); map_async_iterable iterates "
        "only inside `async with aclosing(iterable)`; aclosing.__aexit__ calls aclose() under suppress; "
        "complete_async_iterator_value's exception path reaches early_return()",
    )
    fn = repo.func("execution.incremental.incremental_publisher", "IncrementalPublisher._subscribe")
    tries = [t for t in fn.body if isinstance(t, ast.Try) and t.finalbody]
    ok = len(tries) == 1
    order = [unparse(s) for s in tries[0].finalbody] if ok else []
    want = ["await work_queue.cancel()", "await context.cancel_incremental_work()", "context.run_async_work_finished_hook()"]
    pos = [order.index(w) if w in order else -1 for w in want]
    ok = ok and all(p >= 0 for p in pos) and pos == sorted(pos)
    # nothing that can suspend or raise lies between creating the events and the try
    if ok:
        idx = fn.body.index(tries[0])
        pre = fn.body[:idx]
        ok = all(not _has_await(s) for s in pre)
        ok = ok and all(not any(isinstance(x, ast.While) for x in ast.walk(s)) for s in pre)
    check.ob(rule, tries[0] if tries else fn, "_subscribe finally: cancel queue, cancel incremental work, run hook", ok, str(order))
    m = repo.func("execution.async_iterables", "map_async_iterable")
    withs = [w for w in m.body if isinstance(w, ast.AsyncWith)]
    ok = len(withs) == 1 and "aclosing(iterable)" in unparse(withs[0].items[0].context_expr) and all(
        not isinstance(s, (ast.AsyncFor, ast.For, ast.While)) for s in m.body)
    check.ob(rule, m, "map_async_iterable iterates inside `async with aclosing(iterable)`", ok, "")
    ax = repo.func("execution.async_iterables", "aclosing.__aexit__")
    awaited = [n for n in walk_body(ax) if isinstance(n, ast.Await) and unparse(n.value) == "aclose()"]
    ok = len(awaited) == 1 and any(isinstance(a, ast.With) and "suppress" in unparse(a.items[0].context_expr) for a in ancestors(awaited[0]))
    check.ob(rule, ax, "aclosing.__aexit__ awaits aclose() under suppress", ok, "")
    ci = repo.func("execution.executor", "Executor.complete_async_iterator_value")
    handlers = [h for t in walk_body(ci) if isinstance(t, ast.Try) for h in t.handlers if h.type is not None and unparse(h.type) == "Exception" and h.name is None]
    ok = any(any(isinstance(x, ast.Await) and unparse(x.value) == "early_return()" for x in ast.walk(h)) and isinstance(h.body[-1], ast.Raise) for h in handlers)
    check.ob(rule, ci, "complete_async_iterator_value closes the source on its exception path and re-raises", ok, "")


def twin_handlers(check: Check, repo: Repo, mods: list[Module], rule: str = "TWIN-HANDLERS") -> None:
    check.rule(
        rule,
        "sync/async twins agree: when a function obtains a value from a call made inside try/except and, "
        "if it is awaitable, awaits it in a nested coroutine, the `await` is wrapped in a try whose handler "
        "classes equal those of the synchronous try (an error surfacing asynchronously gets the same "
        "conversion / cleanup as the same error raised synchronously)",
    )
    from sa.cfg import handler_types

    n = 0
    for mod in mods:
        for fn in mod.functions():
            if isinstance(parent(fn), (*FuncDef, ast.Lambda)):
                continue
            # values assigned inside a try body of fn (not in nested functions)
            assigned: dict[str, ast.Try] = {}
            for t in walk_body(fn):
                if isinstance(t, ast.Try) and t.handlers:
                    stack = list(t.body)
                    while stack:
                        s = stack.pop()
                        if isinstance(s, (ast.FunctionDef, ast.AsyncFunctionDef, ast.ClassDef)):
                            continue
                        if isinstance(s, ast.Assign) and len(s.targets) == 1 and isinstance(s.targets[0], ast.Name) \
                                and isinstance(s.value, (ast.Call, ast.Await)):
                            assigned.setdefault(s.targets[0].id, t)
                        stack.extend(x for x in ast.iter_child_nodes(s) if isinstance(x, ast.stmt))
            if not assigned:
                continue
            for g in ast.walk(fn):
                if not (isinstance(g, ast.AsyncFunctionDef) and g is not fn):
                    continue
                params = {a.arg for a in g.args.args}
                for aw in walk_body(g):
                    if isinstance(aw, ast.Await) and isinstance(aw.value, ast.Name) and aw.value.id in assigned and aw.value.id not in params:
                        t_sync = assigned[aw.value.id]
                        # g must be defined after / outside that try or inside it - either way the twin applies
                        h_sync = sorted({c for h in t_sync.handlers for c in handler_types(h)})
                        t_async = None
                        child = aw
                        for a in ancestors(aw):
                            if a is g:
                                break
                            if isinstance(a, ast.Try) and any(child is s or _contains(s, child) for s in a.body):
                                t_async = a
                                break
                            child = a
                        h_async = sorted({c for h in t_async.handlers for c in handler_types(h)}) if t_async is not None else []
                        ok = h_async == h_sync
                        n += 1
                        check.ob(rule, aw, f"{fn.name}.{g.name}: await {aw.value.id}", ok,
                                 f"sync and async handlers both {h_sync}" if ok else
                                 f"synchronous call is wrapped in except {h_sync} but the awaited twin is wrapped in except {h_async or 'nothing'}")
    check.floor(rule, 4, "sync/async twins")


def _contains(root: ast.AST, node: ast.AST) -> bool:
    return any(x is node for x in ast.walk(root))


def zip_align(check: Check, repo: Repo, mods: list[Module], rule: str = "ZIP-ALIGN") -> None:
    check.rule(
        rule,
        "results gathered from several awaitables are paired back with their subjects only through "
        "zip(..., strict=True) over two sequences that are provably parallel: the gathered awaitables are "
        "enumerated from the other operand, or both lists are appended to in the same statement blocks "
        "(co-appended); a subject list built under a different condition shifts every later pair",
    )
    from sa.guards import aliases_of

    n = 0
    for mod in mods:
        for z in ast.walk(mod.tree):
            if not (isinstance(z, ast.Call) and isinstance(z.func, ast.Name) and z.func.id == "zip" and len(z.args) >= 2):
                continue
            fn = enclosing_function(z)
            if fn is None:
                continue
            outer = _outermost(fn)
            names = [a.id for a in z.args if isinstance(a, ast.Name)]
            if len(names) < 2:
                continue
            # which operand is a gathered result?
            gathered = {}
            for a in walk_body(fn):
                if isinstance(a, ast.Assign) and len(a.targets) == 1 and isinstance(a.targets[0], ast.Name) and isinstance(a.value, ast.Await) \
                        and isinstance(a.value.value, ast.Call) and last_attr(a.value.value) in ("gather", "gather_with_cancel"):
                    gathered[a.targets[0].id] = a.value.value
            g_ops = [nm for nm in names if nm in gathered]
            if not g_ops:
                continue
            n += 1
            strict = any(k.arg == "strict" and getattr(k.value, "value", None) is True for k in z.keywords)
            other = [nm for nm in names if nm not in gathered][0] if [nm for nm in names if nm not in gathered] else None
            gcall = gathered[g_ops[0]]
            src = gcall.args[0] if gcall.args else None
            parallel, why = False, ""
            if isinstance(src, ast.Starred) and isinstance(src.value, ast.GeneratorExp):
                it = unparse(src.value.generators[0].iter)
                parallel = it == other
                why = f"gathered awaitables enumerate `{it}`"
            elif isinstance(src, ast.Name) and other is not None:
                al = aliases_of(outer)

                def appends(lst: str) -> list[ast.AST]:
                    out = []
                    for c in ast.walk(outer):
                        if isinstance(c, ast.Call):
                            if isinstance(c.func, ast.Attribute) and c.func.attr == "append" and unparse(c.func.value) == lst:
                                out.append(c)
                            elif isinstance(c.func, ast.Name) and al.get(c.func.id) == (lst, "append"):
                                out.append(c)
                    return out

                def block_of(c: ast.AST) -> ast.AST | None:
                    s = c
                    while s is not None and not isinstance(s, ast.stmt):
                        s = parent(s)
                    return parent(s) if s is not None else None

                a1, a2 = appends(src.id), appends(other)
                b1, b2 = [block_of(c) for c in a1], [block_of(c) for c in a2]
                parallel = bool(a1) and len(a1) == len(a2) and sorted(map(id, b1)) == sorted(map(id, b2))
                why = (f"`{src.id}` and `{other}` are appended to in the same {len(a1)} block(s)" if parallel else
                       f"`{src.id}` has {len(a1)} append site(s), `{other}` has {len(a2)}; they are not co-appended")
            ok = strict and parallel
            check.ob(rule, z, f"{node_text(z, 70)} in {qualname_of(z)}", ok,
                     f"strict=True; {why}" if ok else f"{'no strict=True; ' if not strict else ''}{why or 'operands not provably parallel'}")
    check.floor(rule, 3, "zip() calls pairing gathered results")


def handler_nulls(check: Check, repo: Repo, mods: list[Module], rule: str = "HANDLER-NULLS") -> None:
    check.rule(
        rule,
        "an except handler that records a field error with handle_field_error makes the position null: "
        "after the call the handler returns None, assigns None to the value that is returned after the "
        "try, or appends None to the result list - it never lets a value computed inside the failed try "
        "(possibly a half-awaited coroutine) escape as the field's result",
    )
    n = 0
    for mod in mods:
        for fn in mod.functions():
            for t in walk_body(fn):
                if not isinstance(t, ast.Try):
                    continue
                for h in t.handlers:
                    calls = [s for s in h.body if isinstance(s, ast.Expr) and isinstance(s.value, ast.Call) and last_attr(s.value) == "handle_field_error"]
                    if not calls:
                        continue
                    n += 1
                    after = h.body[h.body.index(calls[-1]) + 1:]
                    ok, why = False, "nothing after handle_field_error nulls the position"
                    for s in after:
                        if isinstance(s, ast.Return) and (s.value is None or (isinstance(s.value, ast.Constant) and s.value.value is None)):
                            ok, why = True, "return None"
                        if isinstance(s, ast.Return) and isinstance(s.value, ast.Call) and s.value.args \
                                and all(isinstance(a, ast.Constant) and a.value is None for a in s.value.args):
                            ok, why = True, f"returns {unparse(s.value)[:50]}"
                        if isinstance(s, ast.Assign) and isinstance(s.value, ast.Constant) and s.value.value is None \
                                and isinstance(s.targets[0], ast.Name):
                            nm = s.targets[0].id
                            # the name must be the one the try body computes
                            tried = {x.targets[0].id for b in t.body for x in ast.walk(b) if isinstance(x, ast.Assign)
                                     and len(x.targets) == 1 and isinstance(x.targets[0], ast.Name)}
                            if nm in tried:
                                ok, why = True, f"{nm} = None replaces the value computed in the try"
                        if isinstance(s, ast.Expr) and isinstance(s.value, ast.Call) and last_attr(s.value) == "append" \
                                and s.value.args and isinstance(s.value.args[0], ast.Constant) and s.value.args[0].value is None:
                            ok, why = True, "appends None to the result list"
                    if not ok and not isinstance(h.body[-1], (ast.Return, ast.Raise, ast.Continue, ast.Break)) and not t.finalbody:
                        # the handler falls through: what follows the try statement decides
                        holder = parent(t)
                        for field in ("body", "orelse", "finalbody"):
                            blk = getattr(holder, field, None)
                            if isinstance(blk, list) and t in blk:
                                nxt = blk[blk.index(t) + 1: blk.index(t) + 2]
                                if nxt and isinstance(nxt[0], ast.Return) and (nxt[0].value is None or (isinstance(nxt[0].value, ast.Constant) and nxt[0].value.value is None)):
                                    ok, why = True, "falls through to the `return None` that follows the try"
                    check.ob(rule, h, f"{qualname_of(h)}: handler at line +{h.lineno - fn.lineno}", ok, why)
    check.floor(rule, 5, "field-error handlers")


def await_guard(check: Check, repo: Repo, mods: list[Module], rule: str = "AWAIT-GUARD") -> None:
    check.rule(
        rule,
        "a value obtained from a function declared to return AwaitableOrValue[...] is awaited only where a "
        "must-fact is_awaitable(value) holds (if-test, conditional expression); awaiting the plain value of "
        "the fully synchronous case raises TypeError and nulls a position that synchronous execution fills",
    )
    classes = ClassIndex(repo)
    cg = CallGraph(repo, classes)
    n = 0
    for mod in mods:
        for fn in mod.functions():
            awaits = [a for a in walk_body(fn) if isinstance(a, ast.Await) and isinstance(a.value, ast.Name)]
            if not awaits:
                continue
            targets = {id(c): t for c, t in cg.callees(_outermost(fn))}
            flow = None
            org = None
            for a in awaits:
                name = a.value.id
                org = org or Origins(fn)
                defs = org.reaching(name, a)
                maybe_plain = False
                for d in defs:
                    v = d.value
                    if d.kind in ("assign", "walrus") and isinstance(v, ast.Call):
                        t = targets.get(id(v))
                        if isinstance(t, FuncDef) and t.returns is not None and "AwaitableOrValue" in unparse(t.returns):
                            maybe_plain = True
                if not maybe_plain:
                    continue
                n += 1
                flow = flow or FactFlow(CFG(fn))
                facts = flow.facts_at(a)
                ok = any(f.kind == "cond" and f.pol and isinstance(f.expr, ast.Call) and last_attr(f.expr).endswith("is_awaitable")
                         and f.expr.args and unparse(f.expr.args[0]) == name for f in facts)
                check.ob(rule, a, f"await {name} in {qualname_of(a)}", ok,
                         f"dominated by is_awaitable({name})" if ok else
                         f"`{name}` may be a plain value (its producer returns AwaitableOrValue) but is awaited unconditionally")
    check.floor(rule, 2, "awaits of AwaitableOrValue results")


# -- C02 ----------------------------------------------------------------------------------------------


def collect_guard(check: Check, repo: Repo, rule: str = "COLLECT-GUARD") -> None:
    check.rule(
        rule,
        "in collect_fields_impl every effect on the collection state - appending field details, creating a "
        "response key (any subscript on the grouped-field defaultdict), marking a fragment as visited, "
        "recording a defer usage, recursing - is dominated by the true outcome of should_include_node for "
        "that selection: a selection excluded by @skip/@include leaves no trace (no key position, no "
        "visited mark)",
    )
    fn = repo.func("execution.collect_fields", "collect_fields_impl")
    flow = FactFlow(CFG(fn))
    sites: list[tuple[ast.AST, str]] = []
    for w in write_sites(fn, include_nested=False):
        sites.append((w.node, f"{w.kind} {w.chain}.{w.detail}"))
    for n in walk_body(fn):
        if isinstance(n, ast.Subscript) and unparse(n.value) == "grouped_field_set" and isinstance(n.ctx, ast.Load):
            sites.append((n, "grouped_field_set[...] (defaultdict access creates the key)"))
        if isinstance(n, ast.Call) and call_name(n) == "collect_fields_impl":
            sites.append((n, "recursive collect_fields_impl(...)"))
    loop = next((n for n in fn.body if isinstance(n, ast.For)), None)
    if loop is None:
        raise AnalysisError("collect_fields_impl: selection loop missing")
    seen = set()
    for node, what in sites:
        if not any(a is loop for a in ancestors(node)) or id(node) in seen:
            continue
        seen.add(id(node))
        facts = flow.facts_at(node)
        ok = any(f.kind == "cond" and f.pol and f.text.startswith("should_include_node(") for f in facts)
        check.ob(rule, node, f"{what} :: {node_text(node, 60)}", ok,
                 "only reached for an included selection" if ok else
                 "this effect happens before (or regardless of) the @skip/@include decision for the selection")
    check.floor(rule, 8, "effects in collect_fields_impl")


def memo_discovery(check: Check, repo: Repo, mods: list[Module], rule: str = "MEMO-KEY-COVER", only=None) -> None:
    """Generic form of MEMO-KEY-COVER: discover `cache.get(key)` / miss / compute / `cache[key] = v` sites."""
    check.rule(
        rule,
        "for every memo site (a self-attribute mapping read with .get(key) / `key in` and written with "
        "cache[key] = value in the same method): every parameter of the method that the stored value is "
        "computed from flows into the key expression; a dropped input makes later calls with a different "
        "input hit the stale entry",
    )
    for mod in mods:
        for fn in mod.functions():
            if only is not None and not only(fn):
                continue
            stores = []
            for s in walk_body(fn):
                subs = [t for t in s.targets if isinstance(t, ast.Subscript)] if isinstance(s, ast.Assign) else []
                if subs:
                    tgt = subs[0]
                    base = tgt.value
                    root = base
                    al = None
                    if isinstance(base, ast.Name):
                        for a in walk_body(fn):
                            if isinstance(a, ast.Assign) and len(a.targets) == 1 and isinstance(a.targets[0], ast.Name) \
                                    and a.targets[0].id == base.id and isinstance(a.value, ast.Attribute) and unparse(a.value.value) == "self":
                                al = a.value.attr
                    elif isinstance(base, ast.Attribute) and unparse(base.value) == "self":
                        al = base.attr
                    if al is None:
                        continue
                    # there must be a lookup of the same cache
                    looked = any(isinstance(c, ast.Call) and isinstance(c.func, ast.Attribute) and c.func.attr == "get"
                                 and unparse(c.func.value) in (unparse(base), f"self.{al}") for c in walk_body(fn))
                    if looked:
                        stores.append((s, tgt, al))
            if not stores:
                continue
            params = [a.arg for a in fn.args.args][1:]  # type: ignore[attr-defined]
            org = Origins(fn)
            for s, tgt, al in stores:
                key = tgt.slice
                key_names = _names_through_locals(key, fn, org, s)
                val_names = _names_through_locals(s.value, fn, org, s)
                used = {p for p in params if p in val_names}
                missing = used - key_names
                why = f"key covers {sorted(used)}" if not missing else \
                    f"the stored value depends on parameter(s) {sorted(missing)} that are not part of the key"
                if not missing:
                    # a key that only holds an attribute projection of a parameter (`node.name.value`)
                    # does not identify the parameter the value was computed from
                    for p in sorted(used):
                        proj = _attribute_projections(key, p, fn, org, s)
                        if proj is None:
                            continue  # the key holds p itself / id(p) / an element of p
                        whole = _whole_uses(s.value, p, fn, org, s, proj)
                        if whole:
                            missing = {p}
                            why = (f"the key holds only the projection {sorted(proj)} of `{p}`, but the stored value is computed "
                                   f"from `{p}` itself ({whole[0]}): two different `{p}` with the same projection share one entry")
                            break
                if not missing:
                    # a hit returns before the checks that lie between the lookup and the store: those checks may only
                    # depend on what the key identifies
                    gets = [c for c in walk_body(fn) if isinstance(c, ast.Call) and isinstance(c.func, ast.Attribute) and c.func.attr == "get"
                            and unparse(c.func.value) in (unparse(tgt.value), f"self.{al}")]
                    first = min((c.lineno for c in gets), default=s.lineno)
                    for g in walk_body(fn):
                        if isinstance(g, ast.If) and first < g.lineno < s.lineno and any(isinstance(x, ast.Raise) for b in g.body for x in ast.walk(b)):
                            dep = {p for p in params if p in _names_through_locals(g.test, fn, org, g)} - key_names
                            if dep:
                                missing = dep
                                why = (f"a hit skips the check `{unparse(g.test)[:60]}` (line {g.lineno}), which depends on {sorted(dep)} - not part of "
                                       f"the key: an entry validated for one {sorted(dep)[0]} is served for another")
                                break
                if not missing:
                    # the value may also be computed from *state* read off the object (the traversal position of a
                    # validation context: self.context.get_field_def()): such a reading is an input like a parameter
                    key_src = {unparse(e) for e in _expand_locals(key, fn, org, s)}
                    for e in _expand_locals(s.value, fn, org, s):
                        for c in ast.walk(e):
                            if isinstance(c, ast.Call) and not c.args and not c.keywords and isinstance(c.func, ast.Attribute) \
                                    and c.func.attr.startswith("get_") and unparse(c.func.value) in ("self.context", "self.type_info", "self._type_info", "context", "type_info") \
                                    and not any(unparse(c) in k for k in key_src):
                                missing = {unparse(c)}
                                why = (f"the stored value is computed from `{unparse(c)}` - the current position of the traversal - which the key "
                                       f"`{unparse(key)[:40]}` does not identify: the entry made at one position is served at another")
                                break
                        if missing:
                            break
                check.ob(rule, s, f"{qualname_of(s)}: self.{al}[{unparse(key)[:40]}]", not missing, why)


def _expand_locals(expr: ast.AST, fn: ast.AST, org: Origins, at: ast.AST, depth: int = 4) -> list[ast.AST]:
    """expr plus the defining expressions of the locals it mentions (transitively)."""
    out = [expr]
    seen: set[str] = set()
    frontier = {n.id for n in ast.walk(expr) if isinstance(n, ast.Name)}
    for _ in range(depth):
        nxt: set[str] = set()
        for nm in frontier - seen:
            seen.add(nm)
            for d in org.reaching(nm, at):
                if d.value is not None and d.kind in ("assign", "walrus", "unpack", "for"):
                    out.append(d.value)
                    nxt |= {x.id for x in ast.walk(d.value) if isinstance(x, ast.Name)}
        frontier = nxt
        if not frontier:
            break
    return out


def _chain_of(n: ast.Name) -> tuple[ast.AST, bool]:
    """Maximal attribute chain rooted at the name node, and whether it is a bare (whole) use."""
    top: ast.AST = n
    p = parent(top)
    while isinstance(p, ast.Attribute) and p.value is top:
        top = p
        p = parent(top)
    return top, top is n


def _attribute_projections(key: ast.AST, pname: str, fn: ast.AST, org: Origins, at: ast.AST) -> set[str] | None:
    """Attribute chains of `pname` in the key; None when the key holds pname itself somewhere."""
    proj: set[str] = set()
    for e in _expand_locals(key, fn, org, at):
        for n in ast.walk(e):
            if isinstance(n, ast.Name) and n.id == pname and parent(n) is not None:
                top, whole = _chain_of(n)
                comp = parent(n)
                if whole and isinstance(comp, ast.comprehension) and comp.iter is n and isinstance(comp.target, ast.Name):
                    # `f(x.attr) for x in p`: the key holds a projection of every element of p
                    owner = parent(comp)
                    elt = getattr(owner, "elt", None)
                    if elt is not None:
                        el_chains = []
                        for x in ast.walk(elt):
                            if isinstance(x, ast.Name) and x.id == comp.target.id:
                                t2, w2 = _chain_of(x)
                                el_chains.append((unparse(t2), w2))
                        if el_chains and not any(w for _t, w in el_chains):
                            for t2, _w in el_chains:
                                proj.add(f"{pname}[*]" + t2[len(comp.target.id):])
                            continue
                if whole:
                    return None
                # a test `x if p.attr else y` is not key material
                proj.add(unparse(top))
    return proj or None


def _whole_uses(value: ast.AST, pname: str, fn: ast.AST, org: Origins, at: ast.AST, proj: set[str]) -> list[str]:
    out = []
    proj = {q for q in proj if "[*]" not in q} or ({"\0"} if proj else proj)
    for e in _expand_locals(value, fn, org, at):
        for n in ast.walk(e):
            if isinstance(n, ast.Name) and n.id == pname and parent(n) is not None:
                top, whole = _chain_of(n)
                text = unparse(top)
                if whole or not any(text == q or text.startswith(q + ".") or q.startswith(text + ".") for q in proj):
                    pp = parent(top)
                    out.append(node_text(pp if pp is not None and not isinstance(pp, ast.stmt) else top, 60))
    return out


def _names_through_locals(expr: ast.AST, fn: ast.AST, org: Origins, at: ast.AST, depth: int = 4) -> set[str]:
    names = {n.id for n in ast.walk(expr) if isinstance(n, ast.Name)}
    seen = set(names)
    frontier = set(names)
    for _ in range(depth):
        nxt = set()
        for nm in frontier:
            for d in org.reaching(nm, at):
                if d.value is not None and d.kind in ("assign", "walrus", "unpack", "for"):
                    for x in ast.walk(d.value):
                        if isinstance(x, ast.Name) and x.id not in seen:
                            seen.add(x.id)
                            nxt.add(x.id)
        frontier = nxt
        if not frontier:
            break
    return seen


# -- C06: cancelling incremental work always aborts; priming always tracks ------------------------


def cancel_aborts(check: Check, repo: Repo, rule: str = "CANCEL-ABORTS") -> None:
    check.rule(
        rule,
        "Executor.cancel_incremental_work reaches its normal exit only through `self.abort(...)` (must-pass-"
        "through on the CFG, exceptional edges excluded): the abort callback is what closes stream sources "
        "that were opened without any pending future, so an early return on `no pending futures` leaves a "
        "started source iterator open",
    )
    fn = repo.func("execution.executor", "Executor.cancel_incremental_work")
    cfg = CFG(fn)
    aborts = [c for c in walk_body(fn) if isinstance(c, ast.Call) and call_name(c) == "self.abort"]
    if not aborts:
        check.ob(rule, fn, "cancel_incremental_work calls self.abort", False, "no call of self.abort(...) at all")
        return
    abort_nodes = {n for c in aborts for n in cfg.node_for_expr(c)}
    path = cfg.find_path(cfg.entry, lambda n: n is cfg.exit, follow=no_exc, avoid=lambda n: n in abort_nodes)
    check.ob(rule, aborts[0], "every normal path of cancel_incremental_work passes self.abort(...)", path is None,
             "self.abort(...) dominates the exit" if path is None else "path to the exit without abort: " + cfg.describe_path(path))
    # the awaitable result of abort is awaited
    awaited = any(isinstance(a, ast.Await) for a in walk_body(fn))
    check.ob(rule, fn, "an awaitable abort result is awaited", awaited, "await present" if awaited else "abort result never awaited")


def prime_tracked(check: Check, repo: Repo, mods: list[Module], rule: str = "PRIME-TRACKED") -> None:
    check.rule(
        rule,
        "outside computation.py, a Computation is started only by a routine that registers what it started: "
        "every `<c>.prime()` call is followed, in the same function, by `track_incremental_future` of "
        "`<c>.pending_future` (the body of prime_now); a computation primed directly runs a task that "
        "cancel_incremental_work never sees and that outlives the closed payload stream",
    )
    n = 0
    for mod in mods:
        if mod.name.endswith(".computation"):
            continue
        for fn in mod.functions():
            for c in walk_body(fn):
                if not (isinstance(c, ast.Call) and isinstance(c.func, ast.Attribute) and c.func.attr == "prime" and not c.args):
                    continue
                recv = unparse(c.func.value)
                n += 1
                tracked = False
                fut_names = {
                    t.id
                    for s in walk_body(fn)
                    if isinstance(s, ast.Assign) and unparse(s.value) == f"{recv}.pending_future"
                    for t in s.targets
                    if isinstance(t, ast.Name)
                }
                for t in walk_body(fn):
                    if isinstance(t, ast.Call) and last_attr(t) == "track_incremental_future" and t.args and t.lineno > c.lineno:
                        a = t.args[0]
                        if unparse(a) == f"{recv}.pending_future" or (isinstance(a, ast.Name) and a.id in fut_names):
                            tracked = True
                check.ob(rule, c, f"{qualname_of(c)}: {unparse(c)}", tracked,
                         f"{recv}.pending_future is handed to track_incremental_future" if tracked else
                         f"`{recv}` is primed but its pending future is not registered with track_incremental_future in this function")
    if n < 1:
        raise AnalysisError("PRIME-TRACKED: no Computation.prime() call site found outside computation.py")


# -- C03: the runtime type check precedes sub-field execution on the async path too ------------------


def typecheck_before_subfields(check: Check, repo: Repo, rule: str = "TYPECHECK-FIRST") -> None:
    check.rule(
        rule,
        "in Executor.complete_object_value (and the coroutine it defines for an awaitable is_type_of) no call "
        "of collect_and_execute_subfields is reachable from the point where `is_type_of` is known without "
        "passing a branch on its (awaited) value: sub-field resolvers never run on a value the type check "
        "rejects, so the asynchronous and the synchronous assignment of is_type_of produce the same errors",
    )
    outer = repo.func("execution.executor", "Executor.complete_object_value")
    scopes = [outer] + [n for n in ast.walk(outer) if isinstance(n, FuncDef) and n is not outer]
    n = 0
    for scope in scopes:
        calls = [c for c in walk_body(scope) if isinstance(c, ast.Call) and last_attr(c) == "collect_and_execute_subfields"]
        if not calls:
            continue
        cfg = CFG(scope)

        # names that hold (a function of) the type check's result: `ok = await ...(is_type_of)`
        carriers = {"is_type_of"}
        grew = True
        while grew:
            grew = False
            for s_ in walk_body(scope):
                if isinstance(s_, ast.Assign) and len(s_.targets) == 1 and isinstance(s_.targets[0], ast.Name) and s_.targets[0].id not in carriers:
                    if {x.id for x in ast.walk(s_.value) if isinstance(x, ast.Name)} & carriers and not (
                            isinstance(s_.value, ast.Call) and last_attr(s_.value) == "collect_and_execute_subfields"):
                        carriers.add(s_.targets[0].id)
                        grew = True

        def is_type_test(nd) -> bool:
            if nd.kind != "test" or nd.ast is None:
                return False
            names = {x.id for x in ast.walk(nd.ast) if isinstance(x, ast.Name)}
            if not (names & carriers):
                return False
            e = nd.ast
            if isinstance(e, ast.Call) and last_attr(e) in ("is_awaitable", "default_is_awaitable"):
                return False
            return True

        if scope is outer:
            starts = [nd for s in walk_body(scope) if isinstance(s, ast.Assign) and any(isinstance(t, ast.Name) and t.id == "is_type_of" for t in s.targets)
                      for nd in cfg.nodes_of(s)]
        else:
            starts = [cfg.entry]
        if not starts:
            raise AnalysisError("complete_object_value: assignment of is_type_of not found")
        for c in calls:
            goals = set(cfg.node_for_expr(c))
            path = None
            for st in starts:
                path = cfg.find_path(st, lambda nd: nd in goals, follow=no_exc, avoid=is_type_test)
                if path:
                    break
            n += 1
            check.ob(rule, c, f"{scope.name}: collect_and_execute_subfields after the is_type_of test", path is None,
                     "every path from the point is_type_of is known passes a branch on it" if path is None else
                     "sub-fields are executed before the type check decided: " + cfg.describe_path(path))
    if n < 2:
        raise AnalysisError("TYPECHECK-FIRST: expected the sync and the async sub-field call")


# -- C03: what counts as awaitable ---------------------------------------------------------------------


def awaitable_kinds(check: Check, repo: Repo, rule: str = "AWAITABLE-KINDS") -> None:
    check.rule(
        rule,
        "pyutils.is_awaitable.is_awaitable accepts the three kinds of objects an `await` accepts (the "
        "definition of inspect.isawaitable): native coroutines (CoroutineType), generator-based coroutines "
        "(GeneratorType whose code has CO_ITERABLE_COROUTINE, i.e. @types.coroutine) and objects with "
        "__await__; a resolver returning a kind the predicate misses is completed as a plain value while the "
        "same resolver written as `async def` is awaited - the sync/async assignments then differ in data",
    )
    fn = repo.func("pyutils.is_awaitable", "is_awaitable")
    rets = [r for r in walk_body(fn) if isinstance(r, ast.Return) and r.value is not None]
    text = " ".join(unparse(r.value) for r in rets)
    calls = [c for r in rets for c in ast.walk(r.value) if isinstance(c, ast.Call)]
    delegates = any(call_name(c) in ("inspect.isawaitable", "isawaitable") for c in calls)
    isinst = {unparse(c.args[1]) for c in calls if call_name(c) == "isinstance" and len(c.args) == 2}
    kinds = {
        "native coroutine (CoroutineType)": delegates or any("CoroutineType" in t for t in isinst),
        "generator-based coroutine (GeneratorType & CO_ITERABLE_COROUTINE)": delegates or (any("GeneratorType" in t for t in isinst) and "CO_ITERABLE_COROUTINE" in text),
        "object with __await__": delegates or any(call_name(c) == "hasattr" and len(c.args) == 2 and isinstance(c.args[1], ast.Constant) and c.args[1].value == "__await__" for c in calls),
    }
    for kind, ok in kinds.items():
        check.ob(rule, fn, f"is_awaitable accepts: {kind}", ok, "tested in the returned disjunction" if ok else "no disjunct of the returned expression accepts this kind")


# -- memo stored on an object: everything else the value depends on is part of the hit test -----------


def _param_chains(expr: ast.AST, fn: ast.AST, params: set[str], org: Origins, at: ast.AST, depth: int = 5,
                  _seen: frozenset = frozenset()) -> set[str]:
    """Attribute chains rooted at parameters that `expr` (evaluated at `at`) depends on; locals are
    expanded through the definitions that reach `at`."""
    out: set[str] = set()
    if depth < 0:
        return out

    def chain_top(n: ast.Name) -> ast.AST:
        top: ast.AST = n
        p = parent(top)
        while isinstance(p, ast.Attribute) and p.value is top:
            top = p
            p = parent(top)
        return top

    for n in ast.walk(expr):
        if not isinstance(n, ast.Name) or not isinstance(n.ctx, ast.Load):
            continue
        top = chain_top(n) if parent(n) is not None else n
        suffix = unparse(top)[len(n.id):]
        if n.id in params:
            out.add(n.id + suffix)
            continue
        for d in org.reaching(n.id, n if parent(n) is not None else at):
            if d.value is None or d.kind not in ("assign", "walrus") or (n.id, id(d.node)) in _seen:
                continue
            pure = d.value
            while isinstance(pure, ast.Attribute):
                pure = pure.value
            is_chain = isinstance(pure, ast.Name)
            for c in _param_chains(d.value, fn, params, org, d.node if d.node is not None else at, depth - 1, _seen | {(n.id, id(d.node))}):
                # `x = p.a` makes `x.b` the chain p.a.b; `x = f(p)` only makes it depend on p
                out.add(c + suffix if is_chain else c)
    return out


def attr_memo(check: Check, repo: Repo, mods: list[Module], rule: str = "ATTR-MEMO") -> None:
    check.rule(
        rule,
        "a value memoised in an attribute of an object (read `m = X.attr`, test, compute, store `X.attr = v` in "
        "one function): every input of the computation that is not itself reached through X is part of the "
        "test that decides between hit and recompute; a memo on a shared object that ignores a second input "
        "(the type a default is coerced for) returns the value computed for another type / another schema",
    )
    n = 0
    for mod in mods:
        for fn in mod.functions():
            params = {a.arg for a in [*fn.args.posonlyargs, *fn.args.args, *fn.args.kwonlyargs]}
            for st in walk_body(fn):
                if not (isinstance(st, ast.Assign) and len(st.targets) == 1 and isinstance(st.targets[0], ast.Attribute)
                        and isinstance(st.targets[0].value, ast.Name) and st.targets[0].value.id != "self"):
                    continue
                holder, attr = st.targets[0].value.id, st.targets[0].attr
                # the same attribute is read before the store
                reads = [
                    s for s in walk_body(fn)
                    if isinstance(s, ast.Assign) and isinstance(s.value, ast.Attribute) and s.value.attr == attr
                    and unparse(s.value.value) == holder and s.lineno < st.lineno and isinstance(s.targets[0], ast.Name)
                ]
                if not reads:
                    continue
                read_name = reads[0].targets[0].id

                def mentions(e: ast.AST) -> bool:
                    return read_name in {x.id for x in ast.walk(e) if isinstance(x, ast.Name)}

                # (a) recompute-guard: the store sits under `if <miss>:`; (b) early return: `if <hit>: return memo`
                guard = next((a for a in ancestors(st) if isinstance(a, ast.If) and mentions(a.test)), None)
                guard_is_hit = False
                if guard is None:
                    block = parent(st)
                    sibs = getattr(block, "body", []) if block is not None else []
                    if isinstance(block, ast.If) and st in block.orelse:
                        sibs = block.orelse
                    for sib in sibs:
                        if sib is st:
                            break
                        if isinstance(sib, ast.If) and mentions(sib.test) and any(
                                isinstance(r, ast.Return) and r.value is not None and unparse(r.value) == read_name for r in sib.body):
                            guard, guard_is_hit = sib, True
                if guard is None:
                    continue
                n += 1
                org = Origins(fn)
                holder_chains = _param_chains(ast.Name(id=holder, ctx=ast.Load()), fn, params, org, st) or {holder}
                inputs = _param_chains(st.value, fn, params, org, st)
                covered = _param_chains(guard.test, fn, params, org, guard.test)
                foreign = {
                    c for c in inputs
                    if not any(c == h or c.startswith(h + ".") for h in holder_chains)
                }
                missing = {c for c in foreign if not any(c == k or k.startswith(c + ".") or c.startswith(k + ".") for k in covered - holder_chains)}
                why = (f"inputs outside {holder}: {sorted(foreign) or 'none'} - all in the hit test" if not missing else
                       f"the stored value also depends on {sorted(missing)}, which the hit test `{unparse(guard.test)}` ignores: "
                       f"the memo on `{holder}` answers for a different {sorted(missing)[0]}")
                ok = not missing
                if ok:
                    bad_cell = _memo_guard_logic(guard.test, guard_is_hit, read_name, holder, bool(foreign))
                    if bad_cell is not None:
                        ok = False
                        why = (f"the test `{unparse(guard.test)}` serves the memo when {bad_cell}: a hit requires a stored value "
                               "AND stored inputs identical to the current ones")
                if ok and foreign:
                    proj = _memo_key_projection(guard.test, holder, fn, params, org, foreign)
                    if proj is not None:
                        ok = False
                        why = (f"the hit test compares the stored key with `{proj}`, a projection of the input (text, name, id ...) that "
                               f"different objects share: the memo on `{holder}` answers for another object with the same projection "
                               "(the equally named type of an extended schema)")
                check.ob(rule, st, f"{qualname_of(st)}: {holder}.{attr} memoises a value", ok, why)
    check.note(attr_memos=n)


def _memo_key_projection(test: ast.AST, holder: str, fn: ast.AST, params: set[str], org: Origins, foreign: set[str]) -> str | None:
    """The current-key side of `holder.<key> is/== K` in a memo guard when K is not the input object itself."""
    for cmp in ast.walk(test):
        if not (isinstance(cmp, ast.Compare) and len(cmp.ops) == 1 and isinstance(cmp.ops[0], (ast.Is, ast.IsNot, ast.Eq, ast.NotEq))):
            continue
        sides = [cmp.left, cmp.comparators[0]]
        stored = [x for x in sides if unparse(x).startswith(holder + ".")]
        other = [x for x in sides if not unparse(x).startswith(holder + ".")]
        if len(stored) != 1 or len(other) != 1:
            continue
        k = other[0]
        if isinstance(k, ast.Constant) or unparse(k) in ("Undefined", "None"):
            continue

        def pure_chain(e: ast.AST) -> bool:
            while isinstance(e, ast.Attribute):
                e = e.value
            return isinstance(e, ast.Name)

        exprs = [k]
        if isinstance(k, ast.Name) and k.id not in params:
            exprs = [d.value for d in org.reaching(k.id, k) if d.value is not None and d.kind in ("assign", "walrus")] or [k]
        for e in exprs:
            if not pure_chain(e):
                return unparse(e)
            chains = _param_chains(e, fn, params, org, cmp)
            if chains and not (chains & foreign) and any(c.startswith(f + ".") for c in chains for f in foreign):
                return unparse(e)
    return None


def _memo_guard_logic(test: ast.AST, test_is_hit: bool, read_name: str, holder: str, has_foreign: bool) -> str | None:
    """Truth table of the memo guard over A = 'nothing stored yet' and B = 'stored inputs are the current ones'.
    Returns a description of a cell in which the memo is served although it must not be, else None."""
    import itertools

    def atom(e: ast.AST):
        if isinstance(e, ast.Compare) and len(e.ops) == 1 and isinstance(e.ops[0], (ast.Is, ast.IsNot, ast.Eq, ast.NotEq)):
            l, r = e.left, e.comparators[0]
            neg = isinstance(e.ops[0], (ast.IsNot, ast.NotEq))
            texts = (unparse(l), unparse(r))
            if read_name in texts and any(t in ("Undefined", "None") for t in texts):
                return ("A", neg)
            if any(t.startswith(holder + ".") for t in texts):
                return ("B", neg)
        return None

    def ev(e: ast.AST, env: dict[str, bool]):
        if isinstance(e, ast.BoolOp):
            vals = [ev(v, env) for v in e.values]
            if any(v is None for v in vals):
                return None
            return all(vals) if isinstance(e.op, ast.And) else any(vals)
        if isinstance(e, ast.UnaryOp) and isinstance(e.op, ast.Not):
            v = ev(e.operand, env)
            return None if v is None else not v
        a = atom(e)
        if a is None:
            return None
        name, neg = a
        return env[name] != neg

    for A, B in itertools.product((False, True), repeat=2):
        if not has_foreign and not B:
            continue
        t = ev(test, {"A": A, "B": B})
        if t is None:
            return None  # not a pure combination of the two atoms: nothing to say
        hit = t if test_is_hit else not t
        if hit and (A or not B):
            return ("nothing has been stored yet" if A else "the stored inputs differ from the current ones")
    return None


# -- C02: the two readers of a resolver's source object agree on what a mapping is -------------------


def source_siblings(check: Check, repo: Repo, rule: str = "SOURCE-SIBLINGS") -> None:
    check.rule(
        rule,
        "default_field_resolver and get_typename (used by default_type_resolver) read the same source objects: "
        "both take the key-lookup branch for exactly the same class test, isinstance(<source>, Mapping); if one "
        "narrows it (dict) a MappingProxyType / ChainMap record still resolves its fields by key but its "
        "__typename by attribute, and the abstract position becomes null",
    )
    sites = [("execution.executor", "default_field_resolver"), ("execution.executor", "get_typename")]
    classes = {}
    for mn, q in sites:
        fn = repo.func(mn, q)
        p0 = fn.args.args[0].arg
        tests = [c for c in walk_body(fn) if isinstance(c, ast.Call) and call_name(c) == "isinstance" and len(c.args) == 2 and unparse(c.args[0]) == p0]
        classes[q] = (fn, sorted({unparse(t.args[1]) for t in tests}))
    want = classes["default_field_resolver"][1]
    for q, (fn, got) in classes.items():
        ok = got == want and bool(got)
        check.ob(rule, fn, f"{q}: key lookup for isinstance(source, {', '.join(got) or '?'})", ok,
                 "same class test as the sibling" if ok else f"sibling default_field_resolver tests {want}, this one {got}")
    # a mapping is read by key only: attribute access happens on the not-a-Mapping side
    fn = classes["default_field_resolver"][0]
    p0 = fn.args.args[0].arg
    flow = FactFlow(CFG(fn))
    for c in walk_body(fn):
        if isinstance(c, ast.Call) and call_name(c) == "getattr" and c.args and unparse(c.args[0]) == p0:
            facts = flow.facts_at(c)
            ok = any(f.kind == "cond" and not f.pol and unparse(f.expr).startswith(f"isinstance({p0},") for f in facts)
            check.ob(rule, c, f"default_field_resolver: {unparse(c)} only for non-mappings", ok,
                     "evaluated under `not isinstance(source, Mapping)`" if ok else
                     "attribute lookup can run for a Mapping source: a dict without the key answers with its own methods "
                     "(`items`, `keys`, `copy` ...), which are then called as resolvers")


# -- C06 round 3: shared trackers, cancellation handlers, abort-aware awaits ------------------------------

USER_CALLBACKS = {"is_type_of", "resolve_type", "resolve_fn", "resolve_type_fn", "type_resolver", "field_resolver"}


def shared_trackers(check: Check, repo: Repo, rule: str = "SHARED-TRACKERS") -> None:
    check.rule(
        rule,
        "the sets in which an executor registers work it started (filled with .add by track_* / "
        "settle_in_background: pending_incremental_futures, background_futures) are what the root executor's "
        "hook and cancel routines wait on; a copy constructor (`x = copy(self)`) therefore never gives the copy "
        "a set of its own - work registered by a sub-executor would be invisible to the root, and the "
        "work-finished hook would fire while it is still pending",
    )
    classes = ClassIndex(repo)
    base = classes.get("execution.executor", "Executor")
    trackers: set[str] = set()
    for ci in [base, *classes.subclasses(base)]:
        for name, m in ci.methods().items():
            if not (name.startswith("track_") or name == "settle_in_background"):
                continue
            alias = {
                a.targets[0].id: a.value.attr for a in walk_body(m)
                if isinstance(a, ast.Assign) and isinstance(a.targets[0], ast.Name) and isinstance(a.value, ast.Attribute) and unparse(a.value.value) == "self"
            }
            for c in walk_body(m):
                if isinstance(c, ast.Call) and isinstance(c.func, ast.Attribute) and c.func.attr == "add":
                    r = c.func.value
                    if isinstance(r, ast.Attribute) and unparse(r.value) == "self":
                        trackers.add(r.attr)
                    elif isinstance(r, ast.Name) and r.id in alias:
                        trackers.add(alias[r.id])
    if len(trackers) < 2:
        raise AnalysisError(f"tracker sets not recognised: {sorted(trackers)}")
    n = 0
    for ci in [base, *classes.subclasses(base)]:
        for m in ci.methods().values():
            copies = [s for s in walk_body(m) if isinstance(s, ast.Assign) and isinstance(s.value, ast.Call) and call_name(s.value) == "copy"
                      and [unparse(a) for a in s.value.args] == ["self"] and isinstance(s.targets[0], ast.Name)]
            if not copies:
                continue
            var = copies[0].targets[0].id
            assigned = {s.targets[0].attr: s for s in walk_body(m)
                        if isinstance(s, ast.Assign) and isinstance(s.targets[0], ast.Attribute) and unparse(s.targets[0].value) == var}
            n += 1
            bad = sorted(set(assigned) & trackers)
            check.ob(rule, m, f"{ci.name}.{m.name}: the copy shares {sorted(trackers)}", not bad,
                     "tracker sets are not re-assigned" if not bad else
                     f"`{var}.{bad[0]} = {unparse(assigned[bad[0]].value)}` detaches the copy's tracked work from the root executor")
    if n < 2:
        raise AnalysisError("SHARED-TRACKERS: copy constructors not found")


CANCEL_CATCH_EXEMPT = {
    ("execution/executor.py", "Executor.execute_operation.await_result"):
        "this coroutine is only interrupted when the *caller* cancels the task awaiting the whole operation, which is not one "
        "of C06's stop kinds (close after k results, abort signal, failing resolver or source)",
    ("execution/incremental/incremental_executor.py", "IncrementalExecutor.execute_execution_group.await_result"):
        "the only canceller of this coroutine is Computation.abort, which itself runs the same sub_executor.abort as its "
        "on_abort callback while the computation is pending",
}


def cancel_catch(check: Check, repo: Repo, mods: list[Module], rule: str = "CANCEL-CATCH") -> None:
    check.rule(
        rule,
        "a handler that exists to cancel / abort awaited work when the awaiting coroutine is itself interrupted (its "
        "body calls .cancel() / .abort() / .aclose() and re-raises) catches BaseException: the interruption arrives as "
        "asyncio.CancelledError, which `except Exception` does not catch - the inner task would keep running "
        "after its awaiter is gone (asyncio.gather propagates the cancellation to its children by itself and "
        "is exempt; asyncio.wait and a bare task are not)",
    )
    n = 0
    for mod in mods:
        for t in ast.walk(mod.tree):
            if not isinstance(t, ast.Try):
                continue
            awaited = [x.value for s in t.body for x in ast.walk(s) if isinstance(x, ast.Await)]
            # asyncio.gather cancels its children when its awaiter is cancelled; wait() and a bare task do not
            if not awaited or all(isinstance(v, ast.Call) and last_attr(v) in ("gather", "gather_with_cancel") for v in awaited):
                continue
            for h in t.handlers:
                cancels = [c for s in h.body for c in ast.walk(s) if isinstance(c, ast.Call) and isinstance(c.func, ast.Attribute)
                           and c.func.attr in ("cancel", "abort", "aclose", "cancel_incremental_work")]
                reraises = any(isinstance(x, ast.Raise) and x.exc is None for s in h.body for x in ast.walk(s))
                if not (cancels and reraises):
                    continue
                types = {"BaseException"} if h.type is None else (
                    {unparse(e) for e in h.type.elts} if isinstance(h.type, ast.Tuple) else {unparse(h.type)})
                ok = bool(types & {"BaseException", "CancelledError", "asyncio.CancelledError"})
                n += 1
                why = "catches cancellation" if ok else "does not catch CancelledError: the cleanup only runs for ordinary exceptions"
                if not ok:
                    ex = CANCEL_CATCH_EXEMPT.get((mod.rel.split("src/graphql/")[-1], qualname_of(h)))
                    if ex:
                        ok, why = True, "exempt: " + ex
                check.ob(rule, h, f"{qualname_of(h)}: except {', '.join(sorted(types))}: ... {node_text(cancels[0], 40)}; raise", ok, why)
    if n < 1:
        raise AnalysisError("CANCEL-CATCH: no cancelling handler found")


def abort_wrap(check: Check, repo: Repo, rule: str = "ABORT-WRAP") -> None:
    check.rule(
        rule,
        "an awaitable handed back by a user callback (is_type_of, resolve_type, a resolver) is awaited only "
        "through self.with_abort_signal(...): awaited bare, a callback that never settles keeps the field - "
        "and with it the unwinding of an aborted operation - pending forever",
    )
    mod = repo.mod("execution.executor")
    cls = repo.cls("execution.executor", "Executor")
    n = 0
    for m in cls.body:
        if not isinstance(m, FuncDef):
            continue
        user: dict[str, ast.AST] = {}
        for s in ast.walk(m):
            if isinstance(s, ast.Assign) and len(s.targets) == 1 and isinstance(s.targets[0], ast.Name) and isinstance(s.value, ast.Call) \
                    and last_attr(s.value) in USER_CALLBACKS:
                user[s.targets[0].id] = s
        if not user:
            continue
        for a in ast.walk(m):
            if isinstance(a, ast.Await):
                v = a.value
                if isinstance(v, ast.Name) and v.id in user:
                    n += 1
                    check.ob(rule, a, f"{qualname_of(a)}: await {v.id}", False,
                             f"`{v.id}` is the result of the user callback `{unparse(user[v.id].value.func)}`; it is awaited without the abort signal")
                elif isinstance(v, ast.Call) and last_attr(v) == "with_abort_signal" and v.args and isinstance(v.args[0], ast.Name) and v.args[0].id in user:
                    n += 1
                    check.ob(rule, a, f"{qualname_of(a)}: await with_abort_signal({v.args[0].id})", True, "abort-aware")
    _ = mod
    if n < 2:
        raise AnalysisError("ABORT-WRAP: awaits of user callback results not found")


def handler_type_arg(check: Check, repo: Repo, mods: list[Module], rule: str = "HANDLER-TYPE") -> None:
    check.rule(
        rule,
        "handle_field_error decides by the declared type of the *position* whether a failed completion becomes "
        "null or propagates; every call passes that type as the local/parameter naming the type being completed "
        "(return_type for a field, item_type for a list item) - never `info.return_type`: the resolve info is "
        "shared by all items of a list, so an item of `[T!]` would be nulled (and an item of `[T]!` would "
        "null the list) when its completion fails asynchronously, unlike the synchronous path",
    )
    n = 0
    for mod in mods:
        for c in ast.walk(mod.tree):
            if isinstance(c, ast.Call) and last_attr(c) == "handle_field_error" and len(c.args) >= 2:
                a = c.args[1]
                ok = isinstance(a, ast.Name)
                n += 1
                check.ob(rule, c, f"{qualname_of(c)}: handle_field_error(_, {unparse(a)}, ...)", ok,
                         "the type of the position in hand" if ok else f"`{unparse(a)}` is read from a shared object, not the type of this position")
    if n < 4:
        raise AnalysisError("HANDLER-TYPE: handle_field_error calls not found")


# -- C06: buffers of produced-but-undelivered work are drained when the execution is stopped ---------------

DRAIN_SITES = [
    # (module, class, queue attribute, the routine that stops the class's work)
    ("execution.incremental.work_queue", "WorkQueue", "_channel", "cancel"),
    ("execution.incremental.stream_item_queue", "StreamItemQueue", "_entries", "abort"),
]


def cancel_drains(check: Check, repo: Repo, rule: str = "CANCEL-DRAINS") -> None:
    check.rule(
        rule,
        "results that were produced but not yet handed on sit in asyncio queues (WorkQueue._channel: graph "
        "events not yet handled; StreamItemQueue._entries: stream items not yet batched). Such a result may "
        "carry work of its own (a nested @stream that is already open) which only becomes visible to the "
        "cancel machinery when the result is handled. The routine that stops the class's work therefore drains "
        "the queue (get_nowait / empty) and cancels the work carried by what it finds; a stop routine that never "
        "looks into the queue leaves nested sources of undelivered items open",
    )
    classes = ClassIndex(repo)
    for mn, cname, attr, stopper in DRAIN_SITES:
        ci = classes.get(mn, cname)
        m = ci.methods().get(stopper)
        if m is None:
            raise AnalysisError(f"{cname}.{stopper} not found")
        # the stop routine and the private helpers of the class it calls
        bodies = [m]
        for _ in range(2):
            for b in list(bodies):
                for c in ast.walk(b):
                    if isinstance(c, ast.Call) and isinstance(c.func, ast.Attribute) and unparse(c.func.value) == "self" \
                            and c.func.attr in ci.methods() and ci.methods()[c.func.attr] not in bodies:
                        bodies.append(ci.methods()[c.func.attr])
        drains = []
        for b in bodies:
            alias = {a.targets[0].id for a in ast.walk(b) if isinstance(a, ast.Assign) and isinstance(a.targets[0], ast.Name)
                     and unparse(a.value) == f"self.{attr}"}
            for c in ast.walk(b):
                if isinstance(c, ast.Call) and isinstance(c.func, ast.Attribute) and c.func.attr in ("get_nowait", "empty"):
                    r = unparse(c.func.value)
                    if r == f"self.{attr}" or r in alias:
                        drains.append(c)
        check.ob(rule, m, f"{cname}.{stopper}: undelivered results in self.{attr}", bool(drains),
                 f"drained: {node_text(drains[0], 50)}" if drains else
                 f"{cname}.{stopper} (and the helpers it calls) never reads self.{attr}: work carried by buffered results is not cancelled")


def unintegrated_work(check: Check, repo: Repo, rule: str = "UNINTEGRATED-WORK") -> None:
    from rules.language_rules import norm_facts

    check.rule(
        rule,
        "WorkQueue: the streams and tasks produced by a task are attached to the graph only when its success event is "
        "handled (_task_success stores the task node's value, then integrates the work). _cancel_task therefore "
        "cancels the work carried by the computation's own fulfilled result, and the only exits that skip this are "
        "under the fact that the result was handled (the task node's value is set): a task that merely *started* - "
        "its node exists - may have finished with its success event still in the channel, and a nested @stream it "
        "opened would stay open after aclose()",
    )
    ci = ClassIndex(repo).get("execution.incremental.work_queue", "WorkQueue")
    succ, cancel = ci.methods().get("_task_success"), ci.methods().get("_cancel_task")
    if succ is None or cancel is None:
        raise AnalysisError("WorkQueue._task_success / _cancel_task not found")
    # the integration witness: the attribute of the task node written by the success handler
    wit = [t for s in walk_body(succ) if isinstance(s, ast.Assign) for t in s.targets
           if isinstance(t, ast.Attribute) and isinstance(t.value, ast.Name) and "node" in t.value.id]
    integ = [c for c in walk_body(succ) if isinstance(c, ast.Call) and "integrate" in call_name(c)]
    if len(wit) != 1 or not integ:
        raise AnalysisError("_task_success: `task_node.<attr> = value` followed by the integration of the work not found")
    attr = wit[0].attr
    check.ob(rule, succ, f"_task_success records the handled result (`{unparse(wit[0])}`) and integrates the work", wit[0].lineno < integ[0].lineno,
             f"`{unparse(wit[0])} = ...` at line {wit[0].lineno}, {call_name(integ[0])}() at line {integ[0].lineno}")
    cfg = CFG(cancel)
    ff = FactFlow(cfg)
    reads = [n for n in walk_body(cancel) if isinstance(n, ast.Attribute) and n.attr == "fulfilled_value"]
    if not reads:
        check.ob(rule, cancel, "_cancel_task cancels the work of a fulfilled but unhandled computation", False,
                 "no read of <computation>.fulfilled_value: work of a finished task whose event is still queued is never cancelled")
        return
    read_nodes = set(cfg.node_for_expr(reads[0]))
    work_calls = [c for c in walk_body(cancel) if isinstance(c, ast.Call) and call_name(c).split(".")[-1] in ("_cancel_task", "_cancel_stream")
                  and any(isinstance(a, ast.For) and "work" in unparse(a.iter) for a in ancestors(c))]
    check.ob(rule, reads[0], "_cancel_task cancels the tasks and streams of the unhandled result", len(work_calls) >= 2,
             f"{len(work_calls)} cancel calls over result.work.*" if len(work_calls) >= 2 else "the work of the fulfilled result is read but not cancelled (tasks and streams)")
    dom = cfg.dominators(follow=no_exc)
    for r in [n for n in walk_body(cancel) if isinstance(n, ast.Return)]:
        rn = cfg.nodes_of(r)
        if not rn or any(d in read_nodes for d in dom.get(rn[0], ())):
            continue
        facts = norm_facts(ff.facts_at(r))
        ok = any(p is False and t.endswith(f".{attr} is _UNSET") for t, p in facts) or any(p is True and t.endswith(f".{attr} is not _UNSET") for t, p in facts)
        check.ob(rule, r, f"_cancel_task: exit at line {r.lineno} skips the un-integrated work", ok,
                 f"only under `<task node>.{attr} is not _UNSET` (result handled, work integrated)" if ok else
                 f"not guarded by `<task node>.{attr} is not _UNSET`: a started task whose result is still queued keeps its nested streams open")


def abort_callback(check: Check, repo: Repo, rule: str = "ABORT-CALLBACK") -> None:
    check.rule(
        rule,
        "Computation.abort: once the computation is found pending, the only way around the abort callback is the "
        "absence of a callback - every normal path from the function's entry to its exit on which the status is "
        "pending (edges that refute `status is _PENDING` are not followed) passes the call of the callback or the "
        "false edge of a pure presence test (`on_abort is not None`). The callback is what stops the sub-executor and "
        "closes the streams the computation has already opened; making it depend on anything else (the outcome of "
        "future.cancel(), which is False for a future that is done but not yet settled) leaves those sources open",
    )
    fn = repo.func("execution.incremental.computation", "Computation.abort")
    cfg = CFG(fn)
    if "_PENDING" not in unparse(fn):
        raise AnalysisError("Computation.abort: the pending status is not tested")
    # the callback: a local holding self._on_abort, or the attribute itself
    cb_names = {"self._on_abort"} | {t.id for s in walk_body(fn) if isinstance(s, ast.Assign) and unparse(s.value) == "self._on_abort"
                                     for t in s.targets if isinstance(t, ast.Name)}
    st_names = {"self._status"} | {t.id for s in walk_body(fn) if isinstance(s, ast.Assign) and unparse(s.value) == "self._status"
                                   for t in s.targets if isinstance(t, ast.Name)}
    calls = [c for c in walk_body(fn) if isinstance(c, ast.Call) and unparse(c.func) in cb_names]
    if not calls:
        check.ob(rule, fn, "Computation.abort: a pending computation invokes the abort callback", False, "no call of the on_abort callback")
        return
    call_nodes = {n for c in calls for n in cfg.node_for_expr(c)}

    def refutes_pending(t: str, pol: bool) -> bool:
        for n in st_names:
            if (t == f"{n} is _PENDING" and not pol) or (t == f"{n} is not _PENDING" and pol):
                return True
            if pol and t in (f"{n} is None", f"{n} is _FULFILLED", f"{n} is _REJECTED"):
                return True
        return False

    def no_callback(t: str, pol: bool) -> bool:
        for n in cb_names:
            if (t in (n, f"{n} is not None", f"callable({n})") and not pol) or (t == f"{n} is None" and pol):
                return True
        return False

    def follow(a, b, label) -> bool:
        if not no_exc(a, b, label):
            return False
        if label and label[0] == "cond":
            t, pol = unparse(label[1]), label[2]
            if refutes_pending(t, pol) or no_callback(t, pol):
                return False
        return True

    path = cfg.find_path(cfg.entry, lambda nd: nd is cfg.exit, follow=follow, avoid=lambda nd: nd in call_nodes)
    check.ob(rule, calls[0], "Computation.abort: a pending computation with a callback always runs the callback", path is None,
             "every normal path with a pending status passes the callback call or the absence test" if path is None else
             "the callback can be skipped although one is set: " + cfg.describe_path(path)[-220:])


def handover_owner(check: Check, repo: Repo, rule: str = "HANDOVER-OWNER") -> None:
    check.rule(
        rule,
        "list completion hands the rest of the source to the stream machinery with handle_stream(index, path, "
        "<iterator>, ...) and leaves its loop; from that `break` on the stream queue owns the iterator (it advances it "
        "and closes it exactly once when the stream ends, fails or is pruned). Nothing reachable from the handover - "
        "on normal or exceptional edges - advances or closes the iterator again, neither directly nor through an alias "
        "of its aclose/close (early_return): a second close violates 'closed exactly once' as soon as an initial item "
        "fails after the stream has started",
    )
    n = 0
    for q in ("Executor.complete_async_iterator_value", "Executor.complete_iterable_value"):
        fn = repo.func("execution.executor", q)
        hand = [c for c in walk_body(fn) if isinstance(c, ast.Call) and call_name(c).split(".")[-1] == "handle_stream"]
        if len(hand) != 1 or len(hand[0].args) < 3 or not isinstance(hand[0].args[2], ast.Name):
            raise AnalysisError(f"{q}: handle_stream(index, path, <iterator>, ...) call not found")
        it = hand[0].args[2].id
        owner_if = next((a for a in ancestors(hand[0]) if isinstance(a, ast.If)), None)
        brk = [s for s in (owner_if.body if owner_if is not None else []) if isinstance(s, ast.Break)]
        if not brk:
            raise AnalysisError(f"{q}: the loop is not left after a successful handover")
        aliases = {it}
        for s in walk_body(fn):
            if isinstance(s, ast.Assign) and any(isinstance(x, ast.Attribute) and isinstance(x.value, ast.Name) and x.value.id == it for x in ast.walk(s.value)):
                aliases |= {t.id for t in s.targets if isinstance(t, ast.Name)}
        cfg = CFG(fn, implicit_raise=True)
        reach = cfg.reachable(cfg.nodes_of(brk[0]))
        uses = []
        for nd in reach:
            if nd.ast is None or nd.kind not in ("stmt", "test", "return", "raise", "with", "for"):
                continue
            top = nd.ast
            for x in ([top] if nd.kind == "test" else _own_exprs(top)):
                for c in ast.walk(x):
                    if isinstance(c, ast.Call) and any(isinstance(y, ast.Name) and y.id in aliases for y in ast.walk(c)):
                        uses.append(c)
        n += 1
        check.ob(rule, brk[0], f"{q}: `{it}` is not touched after the handover to the stream", not uses,
                 f"{len(reach)} CFG nodes reachable from the handover, none calls through {sorted(aliases)}" if not uses else
                 "; ".join(sorted({f"line {u.lineno}: `{unparse(u)[:60]}`" for u in uses})) + " is reachable after the stream queue took the iterator over")
    check.floor(rule, 2, "list completion functions with a stream handover")


def _own_exprs(stmt: ast.AST) -> list[ast.AST]:
    """Expressions evaluated by the statement node itself (not by nested statements)."""
    if isinstance(stmt, (ast.If, ast.While)):
        return [stmt.test]
    if isinstance(stmt, (ast.For, ast.AsyncFor)):
        return [stmt.iter]
    if isinstance(stmt, (ast.With, ast.AsyncWith)):
        return [i.context_expr for i in stmt.items]
    if isinstance(stmt, (ast.Try, ast.FunctionDef, ast.AsyncFunctionDef, ast.ClassDef)):
        return []
    return [stmt]


SCOPE_PARAMS = ("variable_values", "fragment_variable_values")


def scope_threading(check: Check, repo: Repo, mods: list[Module], rule: str = "SCOPE-THREAD") -> None:
    check.rule(
        rule,
        "a variable reference is looked up in two scopes - the operation's coerced variables and the variables of the "
        "enclosing fragment spread - and every function of the coercion chain takes both (parameters variable_values and "
        "fragment_variable_values). At every direct call of such a function: (1) the two scopes travel together - a call "
        "that passes operation variables passes fragment variables too; (2) a caller that received the scopes itself "
        "(same parameter names) hands its own values on to every callee that accepts them. A call that drops a scope "
        "makes `$v` inside that sub-value look unprovided (default used / 'was not provided' error) or resolve in the "
        "wrong scope - the resolver then receives other argument values than input coercion prescribes",
    )
    defs: dict[str, list[str]] = {}
    home: dict[str, str] = {}
    for m in repo.modules.values():
        for f in m.functions():
            if isinstance(f, ast.Lambda) or qualname_of(f) != f.name:
                continue  # module-level functions only: they are called by name
            ps = [a.arg for a in f.args.posonlyargs + f.args.args + f.args.kwonlyargs]
            if all(s in ps for s in SCOPE_PARAMS):
                defs.setdefault(f.name, ps)
                home.setdefault(f.name, m.name)
    if len(defs) < 8:
        raise AnalysisError("SCOPE-THREAD: functions taking both variable scopes not found")
    n = 0
    for m in mods:
        for c in ast.walk(m.tree):
            if not (isinstance(c, ast.Call) and isinstance(c.func, ast.Name) and c.func.id in defs):
                continue
            local = m.defs.get(c.func.id)
            if isinstance(local, (ast.FunctionDef, ast.AsyncFunctionDef)) and m.name != home[c.func.id]:
                continue  # a function of this module that merely shares the name
            ps = defs[c.func.id]
            got: dict[str, ast.AST] = {}
            for i, a in enumerate(c.args):
                if i < len(ps) and not isinstance(a, ast.Starred):
                    got[ps[i]] = a
            for kw in c.keywords:
                if kw.arg:
                    got[kw.arg] = kw.value
            passed = {s: got.get(s) for s in SCOPE_PARAMS}
            given = {s: (v is not None and not (isinstance(v, ast.Constant) and v.value is None)) for s, v in passed.items()}
            fn = enclosing_function(c)
            own = set()
            if fn is not None and not isinstance(fn, ast.Lambda):
                own = {a.arg for a in fn.args.posonlyargs + fn.args.args + fn.args.kwonlyargs} & set(SCOPE_PARAMS)
            problems = []
            if given["variable_values"] and not given["fragment_variable_values"]:
                problems.append("passes operation variables but no fragment variables")
            for s in sorted(own):
                v = passed[s]
                carrier = v is not None and isinstance(v, ast.Attribute) and v.attr == s  # the scope stored with a value source
                if v is None or not (carrier or any(isinstance(x, ast.Name) and x.id == s for x in ast.walk(v))):
                    problems.append(f"the caller's own `{s}` is not handed on")
            n += 1
            check.ob(rule, c, f"{qualname_of(c)}: {c.func.id}(...)", not problems,
                     ("both scopes passed" if all(given.values()) else "no scope in hand (constant context)") if not problems else "; ".join(problems),
                     nontrivial=bool(own) or any(given.values()))
    check.note(scope_functions=sorted(defs))
    return n


def option_independent(check: Check, repo: Repo, rule: str = "OPTION-INDEPENDENT") -> None:
    check.rule(
        rule,
        "Executor.build passes each caller-supplied option on to the constructor parameter of the same name; what "
        "reaches that parameter is computed from that option alone and module-level defaults (followed through local "
        "re-assignments). In particular the three resolvers are independent: the subscription source is created with "
        "subscribe_field_resolver or else the library's default resolver, never with the resolver meant for ordinary "
        "fields - a custom field_resolver (say, camelCase lookup on result objects) must not be applied to the root value "
        "to find the event source",
    )
    ci = ClassIndex(repo).get("execution.executor", "Executor")
    build, init = ci.methods().get("build"), ci.methods().get("__init__")
    if build is None or init is None:
        raise AnalysisError("Executor.build / __init__ not found")
    init_params = [a.arg for a in init.args.args][1:]
    build_params = {a.arg for a in build.args.posonlyargs + build.args.args + build.args.kwonlyargs}
    ctor = [c for c in walk_body(build) if isinstance(c, ast.Call) and unparse(c.func) == "cls"]
    if len(ctor) != 1:
        raise AnalysisError("Executor.build: constructor call not found")
    bound: dict[str, ast.AST] = {}
    for i, a in enumerate(ctor[0].args):
        if i < len(init_params):
            bound[init_params[i]] = a
    for kw in ctor[0].keywords:
        if kw.arg:
            bound[kw.arg] = kw.value
    # local assignments of build: name -> every expression assigned to it
    assigned: dict[str, list[ast.AST]] = {}
    for s in walk_body(build):
        if isinstance(s, ast.Assign):
            for t in s.targets:
                if isinstance(t, ast.Name):
                    assigned.setdefault(t.id, []).append(s.value)
        elif isinstance(s, ast.AnnAssign) and isinstance(s.target, ast.Name) and s.value is not None:
            assigned.setdefault(s.target.id, []).append(s.value)

    def leaves(e: ast.AST, seen: frozenset = frozenset()) -> set[str]:
        out: set[str] = set()
        for x in ast.walk(e):
            if isinstance(x, ast.Name) and isinstance(x.ctx, ast.Load):
                if x.id in assigned and x.id not in seen:
                    if x.id in build_params:
                        out.add(x.id)
                    for v in assigned[x.id]:
                        out |= leaves(v, seen | {x.id})
                else:
                    out.add(x.id)
        return out

    n = 0
    for p in init_params:
        if p not in build_params or p not in bound or not p.endswith("resolver"):
            continue
        lv = leaves(bound[p])
        foreign = sorted(x for x in lv if x in build_params and x != p)
        n += 1
        check.ob(rule, bound[p], f"Executor.build: constructor parameter `{p}`", not foreign and p in lv,
                 f"computed from `{p}` and {sorted(lv - {p})}" if not foreign and p in lv else
                 (f"depends on the other option(s) {foreign}: `{unparse(bound[p])}`" if foreign else f"the option `{p}` does not reach the constructor: `{unparse(bound[p])}`"))
    if n < 3:
        raise AnalysisError("Executor.build: resolver options not found")


def nonnull_after_completion(check: Check, repo: Repo, rule: str = "NONNULL-AFTER-COMPLETION") -> None:
    from rules.language_rules import norm_facts

    check.rule(
        rule,
        "Executor.complete_value, non-null arm: the value handed back for a NonNull position is the *completed* value of "
        "the inner type and it is known not to be None there (must-fact `<completed> is not None` at the return, the null "
        "case raises the 'Cannot return null for non-nullable field' error). Testing the raw result before completion is "
        "not the same: Undefined, or a leaf whose coercion yields None, completes to null and would be returned at a "
        "non-null position without an error and without propagation",
    )
    fn = repo.func("execution.executor", "Executor.complete_value")
    arm = next((i for i in fn.body if isinstance(i, ast.If) and "is_non_null_type" in unparse(i.test)), None)
    if arm is None:
        raise AnalysisError("complete_value: non-null arm not found")
    cfg = CFG(fn)
    ff = FactFlow(cfg)
    rets = [r for s in arm.body for r in ast.walk(s) if isinstance(r, ast.Return)]
    if not rets:
        raise AnalysisError("complete_value: non-null arm does not return")
    for r in rets:
        v = r.value
        ok, why = False, "returns the inner completion directly: its null result is never tested"
        if isinstance(v, ast.Name):
            defs = [s.value for s in arm.body for s in ast.walk(s) if isinstance(s, ast.Assign) and any(isinstance(t, ast.Name) and t.id == v.id for t in s.targets)]
            from_completion = bool(defs) and all(isinstance(d, ast.Call) and call_name(d).split(".")[-1] == "complete_value" for d in defs)
            facts = norm_facts(ff.facts_at(r))
            tested = (f"{v.id} is None", False) in facts
            ok = from_completion and tested
            why = (f"`{v.id}` is the completed inner value and `{v.id} is not None` holds here" if ok else
                   (f"`{v.id}` is not the result of the inner completion" if not from_completion else f"nothing excludes `{v.id} is None` at this return"))
        check.ob(rule, r, f"complete_value: non-null arm returns `{unparse(v)[:50] if v is not None else None}`", ok, why)


def future_exception_guard(check: Check, repo: Repo, mods: list[Module], rule: str = "FUTURE-EXCEPTION-GUARD") -> None:
    from rules.language_rules import norm_facts

    check.rule(
        rule,
        "Future.exception() raises CancelledError when the future was cancelled: every `<f>.exception()` in the execution "
        "package is reached only under the must-fact `not <f>.cancelled()` (the cancelled case is handled first) or inside a "
        "try that catches CancelledError / BaseException. In a done-callback an escaping CancelledError is swallowed by the "
        "event loop's exception handler: no success or failure event is ever pushed for the task, its delivery group is "
        "never completed and the response never terminates",
    )
    n = 0
    for m in mods:
        for fn in m.functions():
            if isinstance(fn, ast.Lambda):
                continue
            calls = [c for c in walk_body(fn) if isinstance(c, ast.Call) and isinstance(c.func, ast.Attribute) and c.func.attr == "exception"
                     and not c.args and isinstance(c.func.value, ast.Name)]
            if not calls:
                continue
            ff = FactFlow(CFG(fn))
            for c in calls:
                f = c.func.value.id
                facts = norm_facts(ff.facts_at(c))
                guarded = (f"{f}.cancelled()", False) in facts
                tried = covered_by_try(c, {"CancelledError", "BaseException"}) is not None
                n += 1
                check.ob(rule, c, f"{qualname_of(c)}: {f}.exception()", guarded or tried,
                         f"`{f}.cancelled()` was excluded first" if guarded else ("inside try/except CancelledError" if tried else
                         f"a cancelled `{f}` makes this call raise CancelledError: the outcome of the task is never recorded"))
    if n < 2:
        raise AnalysisError("FUTURE-EXCEPTION-GUARD: .exception() calls not found")


def leaf_always_coerced(check: Check, repo: Repo, rule: str = "LEAF-COERCED") -> None:
    check.rule(
        rule,
        "Executor.complete_leaf_value hands nothing to the response that did not go through the leaf type's result "
        "coercion: every normal path from the entry to a return passes the call `<type>.coerce_output_value(<result>)`. "
        "A shortcut for values that 'already have the right Python type' skips what the coercion checks beyond the type - "
        "an int outside the signed 32-bit range for Int, inf / nan for Float - where the specification requires a field "
        "error and null propagation",
    )
    fn = repo.func("execution.executor", "Executor.complete_leaf_value")
    cfg = CFG(fn)
    calls = [c for c in walk_body(fn) if isinstance(c, ast.Call) and isinstance(c.func, ast.Attribute) and c.func.attr in ("coerce_output_value", "serialize")]
    if not calls:
        check.ob(rule, fn, "complete_leaf_value coerces the result", False, "no coerce_output_value(...) call")
        return
    nodes = {n for c in calls for n in cfg.node_for_expr(c)}
    rets = {n for r in walk_body(fn) if isinstance(r, ast.Return) for n in cfg.nodes_of(r)}
    path = cfg.find_path(cfg.entry, lambda nd: nd in rets, follow=no_exc, avoid=lambda nd: nd in nodes)
    check.ob(rule, calls[0], "complete_leaf_value: every returned value was coerced by the leaf type", path is None,
             "the coercion call is on every path to a return" if path is None else "a value is returned uncoerced: " + cfg.describe_path(path)[-200:])


def nulled_work_aborted(check: Check, repo: Repo, rule: str = "NULLED-ABORTED") -> None:
    check.rule(
        rule,
        "IncrementalExecutor.get_incremental_work drops the execution groups and item streams whose position was nulled "
        "by error propagation, and *stops* them: every test `has_nulled_position(<x>.path)` of the function guards a "
        "branch that calls `.abort(...)` on the dropped element (its computation / its queue). With early execution a "
        "dropped group is already running; filtering it out without aborting it leaves its resolvers running forever and "
        "the sources of the streams it opened unclosed",
    )
    fn = repo.func("execution.incremental.incremental_executor", "IncrementalExecutor.get_incremental_work")
    from rules.language_rules import enclosing_conditions, norm_facts

    tests = [c for c in walk_body(fn) if isinstance(c, ast.Call) and call_name(c).split(".")[-1] == "has_nulled_position"]
    if not tests:
        raise AnalysisError("get_incremental_work: has_nulled_position tests not found")
    flow = FactFlow(CFG(fn))
    aborts = [x for x in walk_body(fn) if isinstance(x, ast.Call) and isinstance(x.func, ast.Attribute) and x.func.attr == "abort"]
    for c in tests:
        t = unparse(c)
        # an abort call that is reached exactly when this test holds (in either spelling of the branch)
        aborted = any((t, True) in (norm_facts(flow.facts_at(a)) | enclosing_conditions(a)) for a in aborts)
        check.ob(rule, c, f"get_incremental_work: {t}", aborted,
                 "the dropped element is aborted where the test holds" if aborted else "elements at a nulled position are only filtered out, never aborted: running work and open sources are abandoned")
    check.floor(rule, 2, "nulled-position filters (groups and streams)")


def hook_after_drain(check: Check, repo: Repo, rule: str = "HOOK-AFTER-DRAIN") -> None:
    from rules.language_rules import norm_facts

    check.rule(
        rule,
        "the work-finished hook fires when *no* tracked work is left: in Executor.run_async_work_finished_hook every call "
        "of the hook is reached under the must-fact that the set of background futures is empty (`not "
        "background_futures` - the guard of the synchronous path, the exit condition of the waiting loop of the "
        "asynchronous one). Work registered while the waiter sleeps (a failing non-null sibling hands its pending "
        "sibling over to the background) must be waited for as well: a single `await wait(...)` instead of `while "
        "background_futures:` fires the hook while tracked work is still pending",
    )
    fn = repo.func("execution.executor", "Executor.run_async_work_finished_hook")
    scopes = [fn] + [f for f in ast.walk(fn) if isinstance(f, (ast.AsyncFunctionDef, ast.FunctionDef)) and f is not fn]
    # a local function that does nothing but call the hook (under suppress) stands for the hook
    runners = {"hook"}
    for f in scopes[1:]:
        if isinstance(f, ast.FunctionDef) and any(isinstance(c, ast.Call) and isinstance(c.func, ast.Name) and c.func.id == "hook" for c in walk_body(f)) \
                and not any(isinstance(x, (ast.Await, ast.While, ast.For)) for x in ast.walk(f)):
            runners.add(f.name)
    n = 0
    for sc in scopes:
        if getattr(sc, "name", "") in runners - {"hook"}:
            continue
        calls = [c for c in walk_body(sc) if isinstance(c, ast.Call) and isinstance(c.func, ast.Name) and c.func.id in runners]
        if not calls:
            continue
        flow = FactFlow(CFG(sc))
        for c in calls:
            n += 1
            facts = norm_facts(flow.facts_at(c))
            ok = ("background_futures", False) in facts or ("self.background_futures", False) in facts
            if not ok:  # other spellings of 'is not empty': len(x) > 0, len(x) != 0 ...
                for t, p in facts:
                    try:
                        subj = _nonempty_subject(ast.parse(t, mode="eval").body)
                    except SyntaxError:
                        subj = None
                    if subj == "background_futures" and p is False:
                        ok = True
            check.ob(rule, c, f"{qualname_of(c)}: {unparse(c)}", ok,
                     "only when the set of tracked futures is empty" if ok else "nothing establishes that the tracked futures are all done here")
    if n < 2:
        raise AnalysisError("run_async_work_finished_hook: hook calls not found")


def advance_close_same_object(check: Check, repo: Repo, rule: str = "CLOSE-WHAT-YOU-ADVANCE") -> None:
    check.rule(
        rule,
        "Executor.cancellable_iterable wraps a source: the object whose __anext__ the wrapper forwards to is the object "
        "whose aclose it forwards to (the *iterator* obtained from __aiter__, not the iterable it came from). For an async "
        "iterable that returns a separate iterator object, closing the iterable closes nothing: the started iterator stays "
        "open after every early stop",
    )
    fn = repo.func("execution.executor", "Executor.cancellable_iterable")
    cls = next((c for c in ast.walk(fn) if isinstance(c, ast.ClassDef)), None)
    if cls is None:
        raise AnalysisError("cancellable_iterable: wrapper class not found")
    ms = {m.name: m for m in cls.body if isinstance(m, (ast.FunctionDef, ast.AsyncFunctionDef))}
    if "__anext__" not in ms or "aclose" not in ms:
        raise AnalysisError("cancellable_iterable: wrapper lacks __anext__ / aclose")
    adv = {unparse(c.func.value) for c in ast.walk(ms["__anext__"]) if isinstance(c, ast.Call) and isinstance(c.func, ast.Attribute) and c.func.attr in ("__anext__",)}
    adv |= {unparse(c.args[0]) for c in ast.walk(ms["__anext__"]) if isinstance(c, ast.Call) and call_name(c) == "anext" and c.args}
    closed = {unparse(c.args[0]) for c in ast.walk(ms["aclose"]) if isinstance(c, ast.Call) and call_name(c) == "getattr" and len(c.args) >= 2
              and isinstance(c.args[1], ast.Constant) and c.args[1].value == "aclose"}
    closed |= {unparse(c.func.value) for c in ast.walk(ms["aclose"]) if isinstance(c, ast.Call) and isinstance(c.func, ast.Attribute) and c.func.attr == "aclose" and unparse(c.func.value) != "self"}
    ok = bool(adv) and adv == closed
    check.ob(rule, ms["aclose"], f"cancellable_iterable: advances {sorted(adv)}, closes {sorted(closed)}", ok,
             "the same object" if ok else "the wrapper closes another object than the one it iterates")


def cleanup_settles_pending(check: Check, repo: Repo, rule: str = "CLEANUP-SETTLES") -> None:
    check.rule(
        rule,
        "StreamItemQueue._cleanup settles the item futures that are still pending on *every* normal path - whether or "
        "not the producer task had to be cancelled first: no path from the entry to the exit avoids the call of "
        "_settle_pending(). When the source is already exhausted the producer is done, and a cleanup that settles only "
        "in the 'producer still running' branch leaves the early-executed items of the stream pending after it ended",
    )
    ci = ClassIndex(repo).get("execution.incremental.stream_item_queue", "StreamItemQueue")
    fn = ci.methods().get("_cleanup")
    if fn is None:
        raise AnalysisError("StreamItemQueue._cleanup not found")
    cfg = CFG(fn)
    calls = [c for c in walk_body(fn) if isinstance(c, ast.Call) and call_name(c).split(".")[-1] == "_settle_pending"]
    if not calls:
        check.ob(rule, fn, "_cleanup settles pending item futures", False, "no call of _settle_pending()")
        return
    nodes = {n for c in calls for n in cfg.node_for_expr(c)}
    path = cfg.find_path(cfg.entry, lambda nd: nd is cfg.exit, follow=no_exc, avoid=lambda nd: nd in nodes)
    check.ob(rule, calls[0], "_cleanup: _settle_pending() on every normal path", path is None,
             "must-pass-through" if path is None else "can be skipped: " + cfg.describe_path(path)[-180:])


RESULT_VALUE_NAMES = {"result", "resolved", "item", "completed", "completed_item", "completed_value", "resolved_value", "coerced", "value"}


def null_by_identity(check: Check, repo: Repo, rule: str = "NULL-BY-IDENTITY") -> None:
    check.rule(
        rule,
        "whether a resolved value is 'null or undefined' is decided by identity (`is None`, `is Undefined`) in the "
        "executor, never by truthiness: no variable that holds a resolver result or a completed value (result, resolved, "
        "item, completed, coerced ...) is used as a bare condition (`if not resolved:`). 0, 0.0, False and '' are values: "
        "a truthiness test in the awaitable twin of a completion function turns them into null only when the resolver was "
        "asynchronous - the data then depends on the sync/async mix",
    )
    mod = repo.mod("execution.executor")
    bad = []
    n = 0
    for node in ast.walk(mod.tree):
        tests: list[ast.AST] = []
        if isinstance(node, (ast.If, ast.While, ast.IfExp)):
            tests = [node.test]
        elif isinstance(node, ast.BoolOp):
            tests = list(node.values)
        elif isinstance(node, ast.UnaryOp) and isinstance(node.op, ast.Not):
            tests = [node.operand]
        for t in tests:
            n += 1
            if isinstance(t, ast.Name) and t.id in RESULT_VALUE_NAMES:
                bad.append(t)
    for t in bad:
        check.ob(rule, t, f"{qualname_of(t)}: truthiness of `{t.id}`", False, f"`{t.id}` holds a resolved value: falsy values (0, False, '') are not null")
    check.ob(rule, mod.tree, f"execution/executor.py: {n} conditions", not bad, "no result value is tested by truthiness" if not bad else "see above", nontrivial=False)
    if n < 100:
        raise AnalysisError("executor.py: conditions not found")


def visited_then_collected(check: Check, repo: Repo, rule: str = "VISITED-COLLECTED") -> None:
    check.rule(
        rule,
        "collect_fields_impl marks a fragment as visited only when it goes on to collect it: from every store into "
        "`visited_fragment_names[...]` every exception-free path reaches the recursive collect_fields_impl call before the "
        "loop moves on to the next selection. A `continue` between the mark and the collection (an @skip/@include test, "
        "a type-condition test) drops every later, enabled spread of the same fragment in the selection set",
    )
    fn = repo.func("execution.collect_fields", "collect_fields_impl")
    loops = [s for s in fn.body if isinstance(s, ast.For)]
    if len(loops) != 1:
        raise AnalysisError("collect_fields_impl: selection loop not found")
    loop = loops[0]
    cfg = CFG(fn)
    head = cfg.nodes_of(loop)[0]
    stores = [s for s in ast.walk(loop) if isinstance(s, ast.Subscript) and isinstance(s.ctx, ast.Store)
              and isinstance(s.value, ast.Name) and "visited" in s.value.id]
    stores += [c for c in ast.walk(loop) if isinstance(c, ast.Call) and isinstance(c.func, ast.Attribute) and c.func.attr in ("add", "setdefault", "update")
               and isinstance(c.func.value, ast.Name) and "visited" in c.func.value.id]
    rec = {nd for c in ast.walk(loop) if isinstance(c, ast.Call) and isinstance(c.func, ast.Name) and c.func.id == fn.name for nd in cfg.node_for_expr(c)}
    if not stores or not rec:
        raise AnalysisError("collect_fields_impl: visited-fragment stores or the recursive call not found")
    for s in stores:
        st = cfg.node_for_expr(s)
        if not st:
            continue
        path = cfg.find_path(st[0], lambda nd: nd is head or nd is cfg.exit, follow=no_exc, avoid=lambda nd: nd in rec)
        check.ob(rule, s, f"collect_fields_impl: `{unparse(s)}`", path is None,
                 "every path from the mark reaches the recursive collection" if path is None else
                 "the fragment is marked visited, but the loop can move on without collecting it (line "
                 f"{next((nd.ast.lineno for nd in path[1:] if nd.ast is not None and hasattr(nd.ast, 'lineno')), '?')}): "
                 "a later spread of the same fragment is then skipped as already visited")
    check.floor(rule, 1, "visited-fragment stores")


def once_flag_first(check: Check, repo: Repo, rule: str = "ONCE-FLAG-FIRST") -> None:
    check.rule(
        rule,
        "StreamItemQueue runs its abort callback (which closes the source iterator) at most once because every place that "
        "runs it raises the `_aborted` flag *before* the call, and abort() does nothing but release a parked producer when "
        "the flag is up. In every method of the class each call of the callback is therefore reached only through a "
        "`self._aborted = True` store: a call made before the store leaves a window - the callback may suspend - in which "
        "a concurrent abort() sees the flag down and closes the source a second time",
    )
    n = 0
    cls = repo.cls("execution.incremental.stream_item_queue", "StreamItemQueue")
    for fn in [s for s in cls.body if isinstance(s, (ast.FunctionDef, ast.AsyncFunctionDef))]:
        cb = {"self._on_abort"} | {t.id for s in walk_body(fn) if isinstance(s, ast.Assign) and unparse(s.value) == "self._on_abort"
                                   for t in s.targets if isinstance(t, ast.Name)}
        calls = [c for c in walk_body(fn) if isinstance(c, ast.Call) and unparse(c.func) in cb]
        if not calls:
            continue
        cfg = CFG(fn)
        flags = {nd for s in walk_body(fn) if isinstance(s, ast.Assign) and any(unparse(t) == "self._aborted" for t in s.targets)
                 and isinstance(s.value, ast.Constant) and s.value.value is True for nd in cfg.nodes_of(s)}
        for c in calls:
            n += 1
            goals = set(cfg.node_for_expr(c))
            # exception edges are followed: the failure handler of _run is one of the callers
            path = cfg.find_path(cfg.entry, lambda nd: nd in goals, avoid=lambda nd: nd in flags)
            check.ob(rule, c, f"StreamItemQueue.{fn.name}: `{unparse(c)}`", path is None,
                     "the flag is raised on every path to the call" if path is None else
                     "the abort callback is called on a path on which `self._aborted = True` has not been stored yet")
    if n == 0:
        raise AnalysisError("StreamItemQueue: no call of the abort callback found")
    check.floor(rule, 3, "calls of the abort callback (_run, abort, _cleanup)")


def no_wait_after_flag(check: Check, repo: Repo, rule: str = "FLAG-THEN-CANCEL") -> None:
    check.rule(
        rule,
        "the converse of ONCE-FLAG-FIRST. Once `_aborted` is up, abort() takes its shortcut and cancels nothing any more, "
        "so whoever raises the flag has taken over the still pending item futures: in every method of StreamItemQueue an "
        "`await gather(*<futures of self._pending_futures>)` that is reachable from a `self._aborted = True` store of the "
        "same method waits only for futures that the method has cancelled (a `for f in <them>: f.cancel()` loop dominates "
        "the await). A plain wait for un-cancelled item futures belongs *before* the store (the failure branch of _run lets "
        "the items yielded ahead of the failure settle, and only then raises the flag): with the store first, a stop that "
        "arrives during the wait finds the flag up, cancels neither the producer nor the items, and they stay pending "
        "for as long as their resolvers do",
    )
    n = 0
    cls = repo.cls("execution.incremental.stream_item_queue", "StreamItemQueue")
    for fn in [s_ for s_ in cls.body if isinstance(s_, (ast.FunctionDef, ast.AsyncFunctionDef))]:
        # locals holding (a selection of) the pending futures
        pend = {"self._pending_futures"}
        for s_ in walk_body(fn):
            if isinstance(s_, ast.Assign) and any("self._pending_futures" in unparse(x) for x in ast.walk(s_.value) if isinstance(x, ast.Attribute)):
                pend |= {t.id for t in s_.targets if isinstance(t, ast.Name)}
        waits = [a for a in walk_body(fn) if isinstance(a, ast.Await) and isinstance(a.value, ast.Call) and call_name(a.value).split(".")[-1] == "gather"
                 and any(isinstance(x, ast.Starred) and unparse(x.value) in pend for x in a.value.args)]
        if not waits:
            continue
        cfg = CFG(fn)
        flags = [nd for s_ in walk_body(fn) if isinstance(s_, ast.Assign) and any(unparse(t) == "self._aborted" for t in s_.targets)
                 and isinstance(s_.value, ast.Constant) and s_.value.value is True for nd in cfg.nodes_of(s_)]
        dom = cfg.dominators()
        for a in waits:
            n += 1
            what = next(unparse(x.value) for x in a.value.args if isinstance(x, ast.Starred) and unparse(x.value) in pend)
            goals = set(cfg.node_for_expr(a))
            cancels = [nd for lp in walk_body(fn) if isinstance(lp, ast.For) and unparse(lp.iter) == what and isinstance(lp.target, ast.Name)
                       and any(isinstance(c, ast.Call) and unparse(c.func) == f"{lp.target.id}.cancel" for c in ast.walk(lp))
                       for nd in cfg.nodes_of(lp)]
            cancelled = any(c in dom.get(g, set()) for c in cancels for g in goals)
            after_flag = any(cfg.find_path(f, lambda nd: nd in goals) is not None for f in flags)
            ok = cancelled or not after_flag
            check.ob(rule, a, f"StreamItemQueue.{fn.name}: `{unparse(a)[:60]}`", ok,
                     ("the futures were cancelled before the wait" if cancelled else "the wait comes before the flag is raised (or the method never raises it)") if ok else
                     f"waits for the un-cancelled futures `{what}` after `self._aborted = True`: a stop arriving during this wait takes abort()'s "
                     "shortcut and cancels nothing - producer and item tasks stay pending")
    check.floor(rule, 2, "waits for pending item futures (_run, _settle_pending)")


def work_always_collected(check: Check, repo: Repo, rule: str = "NULLED-ABORTED") -> None:
    """Clause of NULLED-ABORTED: build_response cannot return without having passed get_incremental_work."""
    fn = repo.func("execution.incremental.incremental_executor", "IncrementalExecutor.build_response")
    cfg = CFG(fn)
    calls = [c for c in walk_body(fn) if isinstance(c, ast.Call) and call_name(c).split(".")[-1] == "get_incremental_work"]
    if not calls:
        raise AnalysisError("IncrementalExecutor.build_response: call of get_incremental_work not found")
    nodes = {nd for c in calls for nd in cfg.node_for_expr(c)}
    path = cfg.find_path(cfg.entry, lambda nd: nd is cfg.exit, follow=no_exc, avoid=lambda nd: nd in nodes)
    check.ob(rule, fn, "IncrementalExecutor.build_response: every response passes get_incremental_work()", path is None,
             "no return path around the call" if path is None else
             "a response is built without calling get_incremental_work() - the only place where work at a nulled position is "
             "aborted: a response nulled by a root error leaves early-started groups and streams running and their sources open "
             f"(line {next((nd.ast.lineno for nd in path if nd.ast is not None and hasattr(nd.ast, 'lineno')), '?')})")


def path_threading(check: Check, repo: Repo, rule: str = "PATH-THREAD") -> None:
    check.rule(
        rule,
        "the response path of a value is handed down the completion chain as the parameter `path`: a method of the "
        "executor classes that received `path` passes, to every method of those classes that takes a `path`, a value "
        "derived from its own parameter (the parameter itself, or a local computed from it such as path.add_key(index)). "
        "`info.path` is the path of the *field* - for the items of a nested list it is shorter than the item's path - so "
        "passing it instead locates item errors at the wrong position and lets the per-position error bookkeeping drop "
        "errors of sibling rows",
    )
    mods = [repo.mod("execution.executor"), repo.mod("execution.incremental.incremental_executor")]
    methods: dict[str, list[str]] = {}
    fns = []
    for m in mods:
        for cls in [s for s in m.tree.body if isinstance(s, ast.ClassDef) and s.name.endswith("Executor")]:
            for f in cls.body:
                if isinstance(f, (ast.FunctionDef, ast.AsyncFunctionDef)):
                    ps = [a.arg for a in f.args.posonlyargs + f.args.args + f.args.kwonlyargs]
                    if "path" in ps:
                        methods.setdefault(f.name, ps)
                        fns.append(f)
    if len(methods) < 10:
        raise AnalysisError("PATH-THREAD: executor methods taking `path` not found")
    n = 0
    for f in fns:
        # locals derived from the parameter (transitively, flow-insensitive)
        derived = {"path"}
        changed = True
        while changed:
            changed = False
            for s in ast.walk(f):
                if isinstance(s, ast.Assign) and any(isinstance(x, ast.Name) and x.id in derived for x in ast.walk(s.value)):
                    for t in s.targets:
                        if isinstance(t, ast.Name) and t.id not in derived:
                            derived.add(t.id)
                            changed = True
        for c in ast.walk(f):
            if not (isinstance(c, ast.Call) and isinstance(c.func, ast.Attribute) and isinstance(c.func.value, ast.Name)
                    and c.func.value.id == "self" and c.func.attr in methods):
                continue
            ps = [p for p in methods[c.func.attr] if p != "self"]
            got: dict[str, ast.AST] = {}
            for i, a in enumerate(c.args):
                if i < len(ps) and not isinstance(a, ast.Starred):
                    got[ps[i]] = a
            for kw in c.keywords:
                if kw.arg:
                    got[kw.arg] = kw.value
            v = got.get("path")
            if v is None:
                continue
            n += 1
            ok = any(isinstance(x, ast.Name) and x.id in derived for x in ast.walk(v))
            check.ob(rule, c, f"{qualname_of(f)}: self.{c.func.attr}(path=`{unparse(v)}`)", ok,
                     "derived from the caller's own path" if ok else
                     f"`{unparse(v)}` is not derived from the caller's `path` parameter: the callee works at another position than the value it completes")
    check.floor(rule, 15, "calls passing a path between executor methods")


def resolver_args_fresh(check: Check, repo: Repo, rule: str = "ARGS-FRESH") -> None:
    check.rule(
        rule,
        "the argument dictionary handed to a resolver (`resolve_fn(source, info, **args)` in Executor.execute_field and in "
        "execute_subscription) is coerced for that very call: followed through local assignments and through methods of "
        "the executor that do nothing but return it, every origin of `args` is a call of get_argument_values(...) or a dict "
        "display - never a value read back from a container kept on the executor. The per-event executors of a "
        "subscription are shallow copies of one another: a memo of argument values is one dict (holding one coerced input "
        "object, one list) shared by the resolvers of all events, so what one event's resolver consumes in place is "
        "missing for the next event",
    )
    sites = []
    for mn in ("execution.executor", "execution.execute"):
        m = repo.mod(mn)
        for fn in m.functions():
            if isinstance(fn, ast.Lambda):
                continue
            for c in walk_body(fn):
                if isinstance(c, ast.Call) and any(kw.arg is None for kw in c.keywords) and isinstance(c.func, ast.Name) and "resolve" in c.func.id:
                    sites.append((m, fn, c))
    if len(sites) < 2:
        raise AnalysisError("ARGS-FRESH: resolver calls with **args not found")
    classes = ClassIndex(repo)

    def origins(expr: ast.AST, fn: ast.AST, at: ast.AST, depth: int) -> list[tuple[ast.AST, str]]:
        """(origin expression, verdict) - verdict '' = fresh"""
        if isinstance(expr, ast.Dict):
            return [(expr, "")]
        if isinstance(expr, ast.Call):
            nm = call_name(expr)
            if nm.split(".")[-1] == "get_argument_values":
                return [(expr, "")]
            if isinstance(expr.func, ast.Attribute) and unparse(expr.func.value) == "self" and depth > 0:
                cls = next((a for a in ancestors(fn) if isinstance(a, ast.ClassDef)), None)
                target = None
                if cls is not None:
                    target = next((f for f in cls.body if isinstance(f, (ast.FunctionDef, ast.AsyncFunctionDef)) and f.name == expr.func.attr), None)
                if target is not None:
                    out = []
                    for r in walk_body(target):
                        if isinstance(r, ast.Return) and r.value is not None:
                            out += origins(r.value, target, r, depth - 1)
                    return out or [(expr, "returns nothing")]
            if isinstance(expr.func, ast.Attribute) and expr.func.attr in ("get", "setdefault", "pop") and unparse(expr.func.value).startswith("self."):
                return [(expr, f"read back from the container `{unparse(expr.func.value)}` kept on the executor")]
            return [(expr, f"`{unparse(expr)[:50]}` is not a call of get_argument_values")]
        if isinstance(expr, ast.Subscript) and unparse(expr.value).startswith("self."):
            return [(expr, f"read back from the container `{unparse(expr.value)}` kept on the executor")]
        if isinstance(expr, ast.Name):
            org = Origins(fn)
            out = []
            for d in org.reaching(expr.id, at):
                if d.value is None or d.kind not in ("assign", "walrus"):
                    out.append((expr, f"`{expr.id}` has an origin that is not an assignment ({d.kind})"))
                    continue
                v = d.value
                # chained assignment `args = self._memo[key] = get_argument_values(...)` stores the fresh dict: not fresh next time
                st = d.node
                while st is not None and not isinstance(st, ast.stmt):
                    st = parent(st)
                out += origins(v, fn, st if st is not None else at, depth)
                if isinstance(st, ast.Assign) and any(isinstance(t, ast.Subscript) and unparse(t.value).startswith("self.") for t in st.targets):
                    out.append((st, "the coerced dict is also stored in a container kept on the executor"))
            return out or [(expr, f"`{expr.id}` has no reaching definition")]
        if isinstance(expr, ast.IfExp):
            return origins(expr.body, fn, at, depth) + origins(expr.orelse, fn, at, depth)
        return [(expr, f"`{unparse(expr)[:50]}` is not a call of get_argument_values")]

    for m, fn, c in sites:
        kw = next(k for k in c.keywords if k.arg is None)
        res = origins(kw.value, fn, c, 2)
        bad = [w for _, w in res if w]
        check.ob(rule, c, f"{qualname_of(fn)}: {unparse(c.func)}(..., **{unparse(kw.value)})", not bad,
                 f"{len(res)} origin(s), each coerced for this call" if not bad else "; ".join(sorted(set(bad))))
    check.floor(rule, 2, "resolver calls (field execution, subscription source)")
