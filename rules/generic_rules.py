"""Cross-cutting rules that are instantiated by several properties.

Each is a small, exact rule of the classic "deviant construct" kind; a property's
check module instantiates it on the modules its anchors name.  All of them have a
zero (or near-zero) expected count on a conforming tree, so each carries a positive
control under /verif/fixtures that must fire on every run.

  SENTINEL-IDENTITY  the Undefined sentinel is compared by identity only
  ARG-NAME-MATCH     a positional argument that is a name equal to one of the callee's
                     parameters sits at that parameter's position
  MUTABLE-DEFAULT    no mutable default parameter value
  ZIP-FILTER         a filtered sequence is never zipped with an independently built one
  LOOP-COUNTER       a manually advanced loop index is advanced on every path back to
                     the loop head
"""

from __future__ import annotations

import ast
from typing import Iterable

from sa.cfg import CFG, no_exc
from sa.loader import (
    FuncDef,
    ancestors,
    call_name,
    qualname_of,
    Module,
    Repo,
    enclosing_function,
    fixture,
    parent,
    unparse,
    walk_body,
)
from sa.report import Check, node_text
from sa.resolve import CallGraph, class_of

# --------------------------------------------------------------------------- #
# SENTINEL-IDENTITY


def _sentinel_compares(tree: ast.AST, sentinel: str) -> list[tuple[ast.Compare, bool]]:
    out = []
    for n in ast.walk(tree):
        if not isinstance(n, ast.Compare):
            continue
        operands = [n.left, *n.comparators]
        for i, op in enumerate(n.ops):
            pair = (operands[i], operands[i + 1])
            if any(isinstance(p, ast.Name) and p.id == sentinel for p in pair):
                out.append((n, isinstance(op, (ast.Is, ast.IsNot, ast.In, ast.NotIn))))
    return out


def sentinel_identity(check: Check, mods: Iterable[Module], rule: str = "SENTINEL-IDENTITY", sentinel: str = "Undefined") -> int:
    check.rule(
        rule,
        f"`{sentinel}` is only ever compared with `is` / `is not`: UndefinedType.__eq__ also answers "
        "True for None, so `== Undefined` conflates an explicit null with 'no value' (a provided "
        "null would take the not-provided branch and be replaced by a default)",
    )
    n = 0
    for mod in mods:
        for cmp_, ok in _sentinel_compares(mod.tree, sentinel):
            check.ob(rule, cmp_, node_text(cmp_), ok, "identity comparison" if ok else f"`==`/`!=` against {sentinel}: true for None as well", nontrivial=not ok or True)
            n += 1
    fx = fixture("generic_controls")
    fired = [c for c, ok in _sentinel_compares(fx.get("sentinel_bad"), sentinel) if not ok]
    quiet = [c for c, ok in _sentinel_compares(fx.get("sentinel_ok"), sentinel) if not ok]
    check.control(f"{rule}:bad", bool(fired), True)
    check.control(f"{rule}:ok", bool(quiet), False)
    return n


# --------------------------------------------------------------------------- #
# ARG-NAME-MATCH


def _positional_params(fn: ast.AST, bound: bool) -> list[str]:
    a = fn.args  # type: ignore[attr-defined]
    ps = [p.arg for p in [*a.posonlyargs, *a.args]]
    if bound and ps and ps[0] in ("self", "cls"):
        ps = ps[1:]
    return ps


def _norm(name: str) -> str:
    return name.strip("_")


def _arg_name(e: ast.AST) -> str | None:
    if isinstance(e, ast.Name):
        return _norm(e.id)
    if isinstance(e, ast.Attribute) and isinstance(e.value, ast.Name) and e.value.id == "self":
        return _norm(e.attr)
    return None


def swapped_arguments(call: ast.Call, callee: ast.AST) -> list[tuple[int, str, str]]:
    """(position, argument name, parameter expected there) for misplaced name arguments."""
    if any(isinstance(a, ast.Starred) for a in call.args):
        return []
    is_cls = isinstance(callee, ast.ClassDef)
    if is_cls:
        init = next((s for s in callee.body if isinstance(s, FuncDef) and s.name == "__init__"), None)
        if init is None:
            return []
        params = _positional_params(init, True)
    else:
        static = any(isinstance(d, ast.Name) and d.id == "staticmethod" for d in callee.decorator_list)  # type: ignore[attr-defined]
        # a method reached through an attribute, a constructor call or a local alias of
        # the bound method; `Class.method(self, ...)` passes the receiver explicitly
        explicit_self = bool(call.args) and isinstance(call.args[0], ast.Name) and call.args[0].id in ("self", "cls")
        bound = class_of(callee) is not None and not static and not explicit_self
        params = _positional_params(callee, bound)
    pnorm = [_norm(p) for p in params]
    out = []
    for i, a in enumerate(call.args):
        if i >= len(params):
            break
        nm = _arg_name(a)
        if nm is None or nm == pnorm[i]:
            continue
        if nm in pnorm and pnorm.index(nm) != i:
            # the parameter of this name is elsewhere: a defect when the argument passed
            # *there* is in turn the name of yet another parameter (a permutation of
            # parameter names among the arguments - not merely a coincidence of names)
            j = pnorm.index(nm)
            other = _arg_name(call.args[j]) if j < len(call.args) else None
            if other is not None and other != pnorm[j] and other in pnorm:
                out.append((i, nm, params[i]))
    return out


def arg_name_match(check: Check, repo: Repo, funcs: Iterable[ast.AST], rule: str = "ARG-NAME-MATCH", cg: CallGraph | None = None) -> int:
    check.rule(
        rule,
        "at every call whose callee resolves to one definition, a positional argument that is a plain "
        "name (or self.<name>) equal to one of the callee's parameter names is passed at that "
        "parameter's position: two same-typed options swapped positionally type-check and silently "
        "exchange their meaning",
    )
    cg = cg or CallGraph(repo)
    n = 0
    for fn in funcs:
        by_call: dict[ast.Call, list[ast.AST]] = {}
        for call, callee in cg.callees(fn):
            by_call.setdefault(call, []).append(callee)
        for call, callees in by_call.items():
            if len(callees) != 1 or len(call.args) < 2:
                continue
            callee = callees[0]
            if not isinstance(callee, (*FuncDef, ast.ClassDef)):
                continue
            named = [a for a in call.args if _arg_name(a) is not None]
            if len(named) < 2:
                continue
            bad = swapped_arguments(call, callee)
            n += 1
            check.ob(
                rule,
                call,
                node_text(call, 90),
                not bad,
                "named positional arguments sit at their parameters"
                if not bad
                else "; ".join(f"argument #{i + 1} `{nm}` is passed where parameter `{p}` is expected" for i, nm, p in bad),
            )
    fx = fixture("generic_controls")
    callee = fx.get("options_callee")
    calls = {c.func.id: c for c in ast.walk(fx.tree) if isinstance(c, ast.Call) and isinstance(c.func, ast.Name)}  # noqa: F841
    bad_call = next(c for c in ast.walk(fx.get("swapped_bad")) if isinstance(c, ast.Call))
    ok_call = next(c for c in ast.walk(fx.get("swapped_ok")) if isinstance(c, ast.Call))
    check.control(f"{rule}:bad", bool(swapped_arguments(bad_call, callee)), True)
    check.control(f"{rule}:ok", bool(swapped_arguments(ok_call, callee)), False)
    return n


# --------------------------------------------------------------------------- #
# MUTABLE-DEFAULT

_MUTABLE_CALLS = {"dict", "list", "set", "defaultdict", "deque", "OrderedDict", "RefMap", "RefSet"}


def _mutable_defaults(fn: ast.AST) -> list[tuple[str, ast.AST]]:
    a = fn.args  # type: ignore[attr-defined]
    pos = [*a.posonlyargs, *a.args]
    pairs = list(zip(pos[len(pos) - len(a.defaults):], a.defaults)) + [
        (p, d) for p, d in zip(a.kwonlyargs, a.kw_defaults) if d is not None
    ]
    out = []
    for p, d in pairs:
        if isinstance(d, (ast.Dict, ast.List, ast.Set, ast.ListComp, ast.DictComp, ast.SetComp)):
            out.append((p.arg, d))
        elif isinstance(d, ast.Call) and isinstance(d.func, ast.Name) and d.func.id in _MUTABLE_CALLS:
            out.append((p.arg, d))
    return out


def mutable_default(check: Check, funcs: Iterable[ast.AST], rule: str = "MUTABLE-DEFAULT") -> int:
    check.rule(
        rule,
        "no function takes a mutable container as a default parameter value: the one object created at "
        "definition time would carry state from one run into every later run",
    )
    n = 0
    for fn in funcs:
        a = fn.args  # type: ignore[attr-defined]
        if not (a.defaults or any(d is not None for d in a.kw_defaults)):
            continue
        bad = _mutable_defaults(fn)
        n += 1
        check.ob(
            rule,
            fn,
            f"defaults of {fn.name}",  # type: ignore[attr-defined]
            not bad,
            "all defaults immutable" if not bad else "; ".join(f"parameter `{p}` defaults to the shared object `{unparse(d)}`" for p, d in bad),
            nontrivial=bool(bad),
        )
    fx = fixture("generic_controls")
    check.control(f"{rule}:bad", bool(_mutable_defaults(fx.get("mutable_bad"))), True)
    check.control(f"{rule}:ok", bool(_mutable_defaults(fx.get("mutable_ok"))), False)
    return n


# --------------------------------------------------------------------------- #
# ZIP-FILTER


def _bound_expr(fn: ast.AST | None, e: ast.AST) -> ast.AST:
    """Follow one local single-assignment alias."""
    if fn is None or not isinstance(e, ast.Name):
        return e
    defs = [
        s
        for s in walk_body(fn)
        if isinstance(s, ast.Assign) and len(s.targets) == 1 and isinstance(s.targets[0], ast.Name) and s.targets[0].id == e.id
    ]
    if len(defs) == 1:
        return defs[0].value
    return e


def _strip_default(e: ast.AST) -> ast.AST:
    # `xs or ()`
    if isinstance(e, ast.BoolOp) and isinstance(e.op, ast.Or) and len(e.values) == 2:
        return e.values[0]
    return e


def _filter_sig(e: ast.AST) -> tuple[str, str] | None:
    """(iterable, filter) of a filtered single-generator comprehension."""
    if isinstance(e, (ast.ListComp, ast.GeneratorExp, ast.SetComp)) and len(e.generators) == 1:
        g = e.generators[0]
        if g.ifs:
            return unparse(g.iter), " and ".join(unparse(i) for i in g.ifs) + " | " + unparse(g.target)
    if isinstance(e, ast.Call) and isinstance(e.func, ast.Name) and e.func.id == "filter" and len(e.args) == 2:
        return unparse(e.args[1]), unparse(e.args[0])
    return None


def zip_filter_violation(z: ast.Call) -> str | None:
    fn = enclosing_function(z)
    ops = [_bound_expr(fn, _strip_default(a)) for a in z.args]
    sigs = [_filter_sig(o) for o in ops]
    if not any(sigs):
        return None
    filtered = [(o, s) for o, s in zip(ops, sigs) if s]
    base_sig = filtered[0][1]
    for o, s in zip(ops, sigs):
        if s is None:
            # an unfiltered operand is positionally related only if derived from the filtered one
            names = {n.id for n in ast.walk(o) if isinstance(n, ast.Name)}
            src_names = {a.id for a in z.args if isinstance(a, ast.Name)}
            if names & src_names - {getattr(o, "id", None)}:
                continue
            return f"`{node_text(o, 60)}` is built independently of the filtered operand `{node_text(filtered[0][0], 60)}`"
        if s != base_sig:
            return f"operands are filtered differently: [{s[0]} if {s[1]}] vs [{base_sig[0]} if {base_sig[1]}]"
    return None


def zip_filter(check: Check, mods: Iterable[Module], rule: str = "ZIP-FILTER") -> int:
    check.rule(
        rule,
        "the operands of zip() are positionally related: when one operand is a filtered comprehension "
        "(or a local bound to one), every other operand is the same iteration with the same filter; "
        "a filtered sequence paired with an independently built one shifts every pair after the first "
        "element the filter drops",
    )
    n = 0
    for mod in mods:
        for z in ast.walk(mod.tree):
            if isinstance(z, ast.Call) and isinstance(z.func, ast.Name) and z.func.id == "zip" and len(z.args) >= 2:
                why = zip_filter_violation(z)
                check.ob(rule, z, node_text(z, 90), why is None, why or "no operand is a filtered sequence, or all share one filter", nontrivial=why is not None)
                n += 1
    fx = fixture("generic_controls")
    bad = [z for z in ast.walk(fx.get("zip_bad")) if isinstance(z, ast.Call) and getattr(z.func, "id", "") == "zip"]
    ok = [z for z in ast.walk(fx.get("zip_ok")) if isinstance(z, ast.Call) and getattr(z.func, "id", "") == "zip"]
    check.control(f"{rule}:bad", all(zip_filter_violation(z) for z in bad) and bool(bad), True)
    check.control(f"{rule}:ok", any(zip_filter_violation(z) for z in ok), False)
    return n


# --------------------------------------------------------------------------- #
# LOOP-COUNTER


def _increments(loop: ast.AST) -> dict[str, list[ast.AugAssign]]:
    out: dict[str, list[ast.AugAssign]] = {}
    stack = list(loop.body)  # type: ignore[attr-defined]
    while stack:
        s = stack.pop()
        if isinstance(s, (*FuncDef, ast.ClassDef, ast.Lambda)):
            continue
        if isinstance(s, (ast.While, ast.For, ast.AsyncFor)):
            continue  # counters of inner loops belong to them
        if isinstance(s, ast.AugAssign) and isinstance(s.op, ast.Add) and isinstance(s.target, ast.Name) \
                and isinstance(s.value, ast.Constant) and s.value.value == 1:
            out.setdefault(s.target.id, []).append(s)
        stack.extend(c for c in ast.iter_child_nodes(s) if isinstance(c, (ast.stmt, ast.ExceptHandler, ast.match_case)))
    return out


def loop_counter_violations(fn: ast.AST) -> list[tuple[ast.AST, str, str, bool]]:
    """(loop, counter, detail, ok) for every manually indexed loop of fn."""
    res = []
    loops = [n for n in walk_body(fn) if isinstance(n, (ast.While, ast.AsyncFor, ast.For))]
    if not loops:
        return res
    cfg = None
    for loop in loops:
        for name, sites in _increments(loop).items():
            # an item index: exactly one increment, unconditional at body level, and
            # no other store to the name inside the loop
            if len(sites) != 1 or sites[0] not in loop.body:
                continue
            other_writes = [
                n
                for s in loop.body
                for n in ast.walk(s)
                if isinstance(n, ast.Name) and n.id == name and isinstance(n.ctx, ast.Store) and parent(n) is not sites[0]
            ]
            if other_writes:
                continue
            # the counter must be read inside the loop (as an index / path element)
            used = any(
                isinstance(n, ast.Name) and n.id == name and isinstance(n.ctx, ast.Load)
                for s in loop.body
                for n in ast.walk(s)
            )
            if not used:
                continue
            if cfg is None:
                cfg = CFG(fn)
            heads = cfg.nodes_of(loop)
            if not heads:
                continue
            head = heads[0]
            inc_nodes = {n for s in sites for n in cfg.nodes_of(s)}
            witness = _cycle_avoiding(cfg, head, inc_nodes)
            ok = witness is None
            detail = (
                f"every path from the loop head back to it passes `{name} += 1`"
                if ok
                else f"the loop head is reached again without passing `{name} += 1`: " + cfg.describe_path(witness)
            )
            res.append((loop, name, detail, ok))
    return res


def _cycle_avoiding(cfg: CFG, head, avoid) -> list | None:
    """A normal-flow path head -> ... -> head that avoids `avoid`, if any."""
    prev = {}
    stack = []
    for m, label in cfg.succ.get(head, []):
        if no_exc(head, m, label) and m not in avoid and m not in prev:
            prev[m] = head
            stack.append(m)
    while stack:
        n = stack.pop()
        if n is head:
            path = [head]
            cur = prev[n]
            # reconstruct (head ... head)
            rev = [n]
            while cur is not head:
                rev.append(cur)
                cur = prev[cur]
            rev.append(head)
            return rev[::-1]
        for m, label in cfg.succ.get(n, []):
            if not no_exc(n, m, label) or m in avoid:
                continue
            if m is head:
                prev_path = [m]
                cur = n
                rev = [head]
                while cur is not head:
                    rev.append(cur)
                    cur = prev[cur]
                rev.append(head)
                return rev[::-1]
            if m not in prev:
                prev[m] = n
                stack.append(m)
    return None


def loop_counter(check: Check, funcs: Iterable[ast.AST], rule: str = "LOOP-COUNTER") -> int:
    check.rule(
        rule,
        "in a loop that advances its own index (`index += 1` in the body, index read in the body), every "
        "`continue` is preceded by the increment on all paths from the loop head: a fast path that "
        "continues early leaves the index one behind the list it indexes (paths and positions of all "
        "later items shift by one)",
    )
    n = 0
    for fn in funcs:
        for loop, name, detail, ok in loop_counter_violations(fn):
            check.ob(rule, loop, f"loop counter `{name}` of loop at `{node_text(loop, 40).splitlines()[0]}`", ok, detail)
            n += 1
    fx = fixture("generic_controls")
    check.control(f"{rule}:bad", any(not ok for *_x, ok in loop_counter_violations(fx.get("counter_bad"))), True)
    check.control(f"{rule}:ok", any(not ok for *_x, ok in loop_counter_violations(fx.get("counter_ok"))), False)
    return n


# --------------------------------------------------------------------------- #
# VALUE-KEYED-CACHE

_CACHE_DECOS = {"lru_cache", "cache", "functools.lru_cache", "functools.cache"}


def _cache_decorated(fn: ast.AST) -> bool:
    for d in getattr(fn, "decorator_list", []):
        target = d.func if isinstance(d, ast.Call) else d
        if unparse(target) in _CACHE_DECOS:
            return True
    return False


def value_keyed_cache(check: Check, repo: Repo, mods: Iterable[Module], rule: str = "VALUE-KEYED-CACHE") -> int:
    from sa.resolve import ClassIndex

    check.rule(
        rule,
        "a function memoised by functools.lru_cache / cache is keyed by the equality of its arguments: none "
        "of its parameters is annotated with a class of the package that defines __eq__ / __hash__ over a "
        "subset of what the function reads (Location compares start/end only, not the source; Token, Node "
        "and Source compare by content) - two different documents would share one cached rendering",
    )
    classes = ClassIndex(repo)
    by_name: dict[str, list] = {}
    for ci in classes.by_full.values():
        by_name.setdefault(ci.name, []).append(ci)
    n = 0
    for mod in mods:
        for fn in mod.functions():
            if not _cache_decorated(fn):
                continue
            n += 1
            bad = []
            for a in [*fn.args.posonlyargs, *fn.args.args, *fn.args.kwonlyargs]:
                if a.annotation is None:
                    bad.append((a.arg, "unannotated"))
                    continue
                for nm in {x.id for x in ast.walk(a.annotation) if isinstance(x, ast.Name)} | {
                        x.value for x in ast.walk(a.annotation) if isinstance(x, ast.Constant) and isinstance(x.value, str)}:
                    for ci in by_name.get(nm, []):
                        if any(m in c.methods() for c in classes.mro(ci) for m in ("__eq__", "__hash__")):
                            bad.append((a.arg, f"{ci.name} defines its own __eq__/__hash__"))
            check.ob(rule, fn, f"{fn.name}: memoised by value", not bad,
                     "parameters are plain values" if not bad else "; ".join(f"parameter `{p}`: {why}" for p, why in bad))
    fx = fixture("generic_controls")
    check.control(f"{rule}:decorated", _cache_decorated(fx.get("cached_bad")), True)
    check.control(f"{rule}:plain", _cache_decorated(fx.get("zip_ok")), False)
    return n


# --------------------------------------------------------------------------- #
# WORKLIST-RETURN, LOOP-INVARIANT-CALL, MUTABLE-CLASS-ATTR


def _worklists(fn: ast.AST) -> list[tuple[ast.While, str]]:
    out = []
    for w in walk_body(fn):
        if not isinstance(w, ast.While):
            continue
        t = w.test
        name = t.id if isinstance(t, ast.Name) else None
        if name is None:
            continue
        pops = any(isinstance(c, ast.Call) and isinstance(c.func, ast.Attribute) and c.func.attr in ("pop", "popleft")
                   and isinstance(c.func.value, ast.Name) and c.func.value.id == name for c in ast.walk(w))
        pushes = any(isinstance(c, ast.Call) and isinstance(c.func, ast.Attribute) and c.func.attr in ("append", "extend", "appendleft")
                     and isinstance(c.func.value, ast.Name) and c.func.value.id == name for c in ast.walk(w))
        if pops and pushes:
            out.append((w, name))
    return out


def worklist_return(check: Check, funcs: Iterable[ast.AST], rule: str = "WORKLIST-RETURN") -> int:
    check.rule(
        rule,
        "a loop `while work:` that pops items from `work` and pushes further items onto it finishes one item "
        "with `continue`; a bare `return` inside such a loop (typically left over from the recursive version, "
        "where it ended one call) abandons every item still queued",
    )
    n = 0
    for fn in funcs:
        for w, name in _worklists(fn):
            rets = [r for r in ast.walk(w) if isinstance(r, ast.Return) and r.value is None and enclosing_function(r) is fn]
            n += 1
            check.ob(rule, w, f"{getattr(fn, 'name', '?')}: worklist `{name}`", not rets,
                     "no bare return inside the worklist loop" if not rets else
                     f"`return` at line {rets[0].lineno} drops the {name} items that are still queued")
    fx = fixture("generic_controls")
    check.control(f"{rule}:bad", any(any(isinstance(r, ast.Return) and r.value is None for r in ast.walk(w)) for w, _ in _worklists(fx.get("worklist_bad"))), True)
    check.control(f"{rule}:ok", any(any(isinstance(r, ast.Return) and r.value is None for r in ast.walk(w)) for w, _ in _worklists(fx.get("worklist_ok"))), False)
    return n


def _loop_vars(loop: ast.AST) -> set[str]:
    return {x.id for x in ast.walk(loop.target) if isinstance(x, ast.Name)}  # type: ignore[attr-defined]


def loop_invariant_calls(fn: ast.AST) -> list[tuple[ast.Call, ast.For]]:
    """Call statements nested in a for loop that depend on none of that loop's variables although they
    depend on the variables of an inner or sibling loop (so they were put there, not hoisted by mistake)."""
    out = []
    for loop in walk_body(fn):
        if not isinstance(loop, ast.For):
            continue
        lv = _loop_vars(loop)
        # names derived from the loop variables inside the loop
        derived = set(lv)
        grew = True
        while grew:
            grew = False
            for s in ast.walk(loop):
                if isinstance(s, ast.Assign):
                    names = {x.id for x in ast.walk(s.value) if isinstance(x, ast.Name)}
                    for t in s.targets:
                        for x in ast.walk(t):
                            if isinstance(x, ast.Name) and x.id not in derived and names & derived:
                                derived.add(x.id)
                                grew = True
                elif isinstance(s, ast.For) and s is not loop:
                    names = {x.id for x in ast.walk(s.iter) if isinstance(x, ast.Name)}
                    if names & derived:
                        for x in ast.walk(s.target):
                            if isinstance(x, ast.Name) and x.id not in derived:
                                derived.add(x.id)
                                grew = True
        for st in loop.body:
            for sub in ast.walk(st):
                if isinstance(sub, ast.Expr) and isinstance(sub.value, ast.Call):
                    names = {x.id for x in ast.walk(sub.value) if isinstance(x, ast.Name)}
                    inner = [a for a in _anc_until(sub, loop) if isinstance(a, ast.For)]
                    if inner and not (names & derived) and any(names & _loop_vars(i) for i in inner):
                        out.append((sub.value, loop))
    return out


def _anc_until(n: ast.AST, stop: ast.AST):
    p = parent(n)
    while p is not None and p is not stop:
        yield p
        p = parent(p)


def loop_invariant_call(check: Check, funcs: Iterable[ast.AST], rule: str = "LOOP-NEST") -> int:
    check.rule(
        rule,
        "a call statement inside nested for-loops depends on the variable of every loop it is nested in: "
        "a comparison of A with each element of Y that sits inside `for x in X:` without using x runs zero "
        "times when X is empty (and |X| times otherwise) - fusing two independent loops loses the "
        "comparisons of one side whenever the other side is empty",
    )
    n = 0
    for fn in funcs:
        loops = [l for l in walk_body(fn) if isinstance(l, ast.For)]
        if not loops:
            continue
        bad = loop_invariant_calls(fn)
        nested = [l for l in loops if any(isinstance(x, ast.For) and x is not l for x in ast.walk(l))]
        if not nested:
            continue
        n += 1
        check.ob(rule, fn, f"{getattr(fn, 'name', '?')}: calls in nested loops use every enclosing loop variable", not bad,
                 f"{len(nested)} nested loop(s) checked" if not bad else
                 "; ".join(f"`{node_text(c, 50)}` does not depend on `for {unparse(l.target)} in {unparse(l.iter)}` (line {l.lineno}) it is nested in" for c, l in bad[:2]))
    return n


def mutable_class_attr(check: Check, mods: Iterable[Module], rule: str = "MUTABLE-CLASS-ATTR") -> int:
    check.rule(
        rule,
        "no class body binds a mutable container (`cache: dict = {}`): the one object is shared by every "
        "instance, so what one validation run caches is read by the next run (the verdict depends on what "
        "was validated before)",
    )
    n = 0
    for mod in mods:
        for cls in mod.classes():
            bad = []
            for s in cls.body:
                v = s.value if isinstance(s, (ast.Assign, ast.AnnAssign)) else None
                if v is None:
                    continue
                if isinstance(v, (ast.Dict, ast.List, ast.Set)) or (
                        isinstance(v, ast.Call) and isinstance(v.func, ast.Name) and v.func.id in _MUTABLE_CALLS):
                    name = unparse(s.targets[0] if isinstance(s, ast.Assign) else s.target)
                    if name.startswith("__") and name.endswith("__"):
                        continue  # __slots__, __all__ ...
                    bad.append((name, v))
            n += 1
            check.ob(rule, cls, f"class {cls.name}: class-level bindings", not bad,
                     "no shared mutable container" if not bad else "; ".join(f"`{nm} = {unparse(v)}` is one object for all instances" for nm, v in bad),
                     nontrivial=bool(bad))
    return n


# --------------------------------------------------------------------------- #
# DISPATCH-LOOP-BREAK


def dispatch_loop_breaks(fn: ast.AST) -> list[tuple[ast.For, ast.Break, str]]:
    """`break` in one isinstance-arm of a for loop whose other arm collects elements."""
    out = []
    for loop in walk_body(fn):
        if not isinstance(loop, ast.For) or not isinstance(loop.target, ast.Name):
            continue
        var = loop.target.id
        # the if/elif chain on the class of the loop variable, directly in the loop body
        chains = [s for s in loop.body if isinstance(s, ast.If) and f"isinstance({var}," in unparse(s.test)]
        for chain in chains:
            arms: list[list[ast.stmt]] = []
            cur: ast.If | None = chain
            while cur is not None:
                arms.append(cur.body)
                nxt = cur.orelse
                if len(nxt) == 1 and isinstance(nxt[0], ast.If):
                    cur = nxt[0]
                else:
                    if nxt:
                        arms.append(nxt)
                    cur = None
            if len(arms) < 2:
                continue

            def collects(arm: list[ast.stmt]) -> str | None:
                for s in arm:
                    for x in ast.walk(s):
                        if isinstance(x, ast.Assign) and isinstance(x.targets[0], ast.Subscript):
                            return unparse(x.targets[0].value)
                        if isinstance(x, ast.Call) and isinstance(x.func, ast.Attribute) and x.func.attr in ("append", "add", "extend"):
                            return unparse(x.func.value)
                return None

            for i, arm in enumerate(arms):
                brs = [b for s in arm for b in ast.walk(s) if isinstance(b, ast.Break) and _owner_loop(b) is loop]
                if not brs:
                    continue
                others = [collects(a) for j, a in enumerate(arms) if j != i]
                others = [o for o in others if o]
                if others:
                    out.append((loop, brs[0], others[0]))
    return out


def dispatch_loop_break(check: Check, funcs: Iterable[ast.AST], rule: str = "DISPATCH-LOOP-BREAK") -> int:
    check.rule(
        rule,
        "a for loop that dispatches on the class of its elements and *collects* in one arm (fragments into a "
        "map, definitions into a list) is not left with `break` from another arm: the elements after the "
        "break never reach the collecting arm (fragments defined after the selected operation would be "
        "unknown to execution and their spreads silently skipped)",
    )
    n = 0
    for fn in funcs:
        loops = [l for l in walk_body(fn) if isinstance(l, ast.For) and isinstance(l.target, ast.Name)
                 and any(isinstance(s, ast.If) and f"isinstance({l.target.id}," in unparse(s.test) for s in l.body)]
        if not loops:
            continue
        bad = dispatch_loop_breaks(fn)
        n += 1
        check.ob(rule, fn, f"{getattr(fn, 'name', '?')}: class-dispatching loop(s) run to the end", not bad,
                 f"{len(loops)} loop(s), no break out of an arm" if not bad else
                 f"`break` at line {bad[0][1].lineno} leaves the loop although another arm collects into `{bad[0][2]}`")
    fx = fixture("generic_controls")
    check.control(f"{rule}:bad", bool(dispatch_loop_breaks(fx.get("dispatch_break_bad"))), True)
    check.control(f"{rule}:ok", bool(dispatch_loop_breaks(fx.get("dispatch_break_ok"))), False)
    return n


def _owner_loop(node: ast.AST) -> ast.AST | None:
    p = parent(node)
    while p is not None:
        if isinstance(p, (ast.While, ast.For, ast.AsyncFor)):
            return p
        if isinstance(p, (*FuncDef, ast.Lambda)):
            return None
        p = parent(p)
    return None


# --------------------------------------------------------------------------- #
# PARAM-USED


def unused_parameters(fn: ast.AST) -> list[str]:
    a = fn.args  # type: ignore[attr-defined]
    params = [p.arg for p in [*a.posonlyargs, *a.args, *a.kwonlyargs]]
    if a.vararg:
        params.append(a.vararg.arg)
    if a.kwarg:
        params.append(a.kwarg.arg)
    stmts = [s for s in fn.body if not (isinstance(s, ast.Expr) and isinstance(s.value, ast.Constant))]  # type: ignore[attr-defined]
    if not stmts or all(isinstance(s, (ast.Pass, ast.Raise)) for s in stmts):
        return []  # stub / abstract
    if any(isinstance(d, ast.Name) and d.id == "overload" for d in fn.decorator_list):  # type: ignore[attr-defined]
        return []
    used = {x.id for s in fn.body for x in ast.walk(s) if isinstance(x, ast.Name)}  # type: ignore[attr-defined]
    return [p for p in params if p not in ("self", "cls") and not p.startswith("_") and p not in used]


def param_used(check: Check, mods: Iterable[Module], rule: str = "PARAM-USED") -> int:
    check.rule(
        rule,
        "every parameter of a module-level function is read in its body (parameters whose name starts with "
        "an underscore are declared unused): an entry point that accepts `type_resolver=` and never passes it "
        "on type-checks, passes every test that does not use the option, and silently ignores what the "
        "caller configured (methods are excluded: a base-class hook may ignore what its overrides use)",
    )
    n = 0
    for mod in mods:
        for fn in mod.functions():
            if parent(fn) is not mod.tree:
                continue
            bad = unused_parameters(fn)
            n += 1
            check.ob(rule, fn, f"{fn.name}: parameters are used", not bad,
                     "all read" if not bad else f"parameter(s) {bad} are accepted and never read", nontrivial=bool(bad))
    fx = fixture("generic_controls")
    check.control(f"{rule}:bad", bool(unused_parameters(fx.get("param_bad"))), True)
    check.control(f"{rule}:ok", bool(unused_parameters(fx.get("swapped_ok"))), False)
    return n


# --------------------------------------------------------------------------- #
# EMPTINESS-GUARD


def swallowed_loops(fn: ast.AST) -> list[tuple[ast.If, ast.For]]:
    """`if xs:` that guards a loop over xs *and* a sibling loop over some other collection."""
    out = []
    for i in walk_body(fn):
        if not isinstance(i, ast.If) or i.orelse or not isinstance(i.test, (ast.Name, ast.Attribute)):
            continue
        g = unparse(i.test)
        loops = [s for s in i.body if isinstance(s, ast.For)]
        if len(loops) < 2:
            continue

        def over(l: ast.For) -> str:
            it = l.iter
            while isinstance(it, ast.Call) and it.args and isinstance(it.func, (ast.Name, ast.Attribute)) and (
                    (isinstance(it.func, ast.Name) and it.func.id in ("enumerate", "list", "tuple", "sorted", "reversed"))):
                it = it.args[0]
            if isinstance(it, ast.Call) and isinstance(it.func, ast.Attribute) and it.func.attr in ("items", "values", "keys"):
                it = it.func.value
            return unparse(it)

        own = [l for l in loops if over(l) == g]
        other = [l for l in loops if over(l) != g]
        if own and other:
            out.append((i, other[0]))
    # the early-exit spelling: `if not xs: continue` followed by a loop over xs and a loop over something else
    alias = {t.id: unparse(s.value) for s in walk_body(fn) if isinstance(s, ast.Assign) and isinstance(s.value, (ast.Attribute, ast.Name))
             for t in s.targets if isinstance(t, ast.Name)}

    def canon(text: str) -> str:
        return alias.get(text, text)

    def over2(l: ast.For) -> str:
        it = l.iter
        while isinstance(it, ast.Call) and it.args and isinstance(it.func, ast.Name) and it.func.id in ("enumerate", "list", "tuple", "sorted", "reversed"):
            it = it.args[0]
        if isinstance(it, ast.Call) and isinstance(it.func, ast.Attribute) and it.func.attr in ("items", "values", "keys"):
            it = it.func.value
        return canon(unparse(it))

    for blk in ast.walk(fn):
        for field in ("body", "orelse"):
            stmts = getattr(blk, field, None)
            if not isinstance(stmts, list):
                continue
            for k, i in enumerate(stmts):
                if not (isinstance(i, ast.If) and not i.orelse and isinstance(i.test, ast.UnaryOp) and isinstance(i.test.op, ast.Not)
                        and isinstance(i.test.operand, (ast.Name, ast.Attribute)) and len(i.body) == 1
                        and (isinstance(i.body[0], ast.Continue) or (isinstance(i.body[0], ast.Return) and i.body[0].value is None))):
                    continue
                g = canon(unparse(i.test.operand))
                loops = [s for s in stmts[k + 1:] if isinstance(s, ast.For)]
                own = [l for l in loops if over2(l) == g]
                other = [l for l in loops if over2(l) != g]
                if own and other:
                    out.append((i, other[0]))
    return out


def emptiness_guard(check: Check, funcs: Iterable[ast.AST], rule: str = "EMPTINESS-GUARD") -> int:
    check.rule(
        rule,
        "`if xs:` around `for x in xs` is a harmless shortcut; when the same `if` also encloses a second loop "
        "over a *different* collection, that loop no longer runs when xs is empty - the check it performs on "
        "every element of the other collection (a required argument the interface field does not declare) is "
        "skipped exactly in the case where every element should be reported",
    )
    n = 0
    for fn in funcs:
        ifs = [i for i in walk_body(fn) if isinstance(i, ast.If) and not i.orelse and isinstance(i.test, (ast.Name, ast.Attribute))
               and sum(isinstance(s, ast.For) for s in i.body) >= 1]
        bad = swallowed_loops(fn)
        if not ifs and not bad:
            continue
        n += 1
        check.ob(rule, fn, f"{getattr(fn, 'name', '?')}: emptiness guards enclose only their own loop", not bad,
                 f"{len(ifs)} guarded loop(s)" if not bad else
                 f"`if {unparse(bad[0][0].test)}:` (line {bad[0][0].lineno}) also encloses `for {unparse(bad[0][1].target)} in {unparse(bad[0][1].iter)}`",
                 nontrivial=bool(bad))
    fx = fixture("generic_controls")
    check.control(f"{rule}:bad", bool(swallowed_loops(fx.get("guard_bad"))), True)
    check.control(f"{rule}:ok", bool(swallowed_loops(fx.get("guard_ok"))), False)
    check.control(f"{rule}:bad-early-exit", bool(swallowed_loops(fx.get("guard_bad_early_exit"))), True)
    return n


# --------------------------------------------------------------------------- #
# ITER-MUTATION

_MUTATORS = {"remove", "pop", "append", "insert", "extend", "clear", "discard", "add", "popitem", "update", "sort", "reverse"}


def iter_mutations(fn: ast.AST) -> list[tuple[ast.For, ast.AST]]:
    out = []
    for loop in walk_body(fn):
        if not isinstance(loop, (ast.For, ast.AsyncFor)):
            continue
        it = loop.iter
        # `for k, v in d.items()` iterates d
        if isinstance(it, ast.Call) and isinstance(it.func, ast.Attribute) and it.func.attr in ("items", "keys", "values") and not it.args:
            it = it.func.value
        if isinstance(it, ast.Call) and isinstance(it.func, ast.Name) and it.func.id == "enumerate" and it.args:
            it = it.args[0]
        if not isinstance(it, (ast.Name, ast.Attribute)):
            continue  # list(xs), tuple(xs), sorted(xs) ... iterate a copy
        subject = unparse(it)
        for s in loop.body:
            for c in ast.walk(s):
                hit = None
                if isinstance(c, ast.Call) and isinstance(c.func, ast.Attribute) and c.func.attr in _MUTATORS and unparse(c.func.value) == subject:
                    hit = c
                elif isinstance(c, ast.Delete) and any(isinstance(t, ast.Subscript) and unparse(t.value) == subject for t in c.targets):
                    hit = c
                elif isinstance(c, ast.Assign) and any(isinstance(t, ast.Subscript) and unparse(t.value) == subject and isinstance(loop.iter, ast.Call) for t in c.targets):
                    hit = None  # replacing a value of an existing key while iterating items() is fine
                if hit is not None:
                    # `...; break` / `return` right after the mutation ends the iteration: fine
                    st = hit
                    while parent(st) is not None and not isinstance(st, ast.stmt):
                        st = parent(st)
                    blk = getattr(parent(st), "body", [])
                    later = blk[blk.index(st) + 1:] if st in blk else []
                    if later and isinstance(later[0], (ast.Break, ast.Return)):
                        continue
                    out.append((loop, hit))
    return out


def iter_mutation(check: Check, funcs: Iterable[ast.AST], rule: str = "ITER-MUTATION") -> int:
    check.rule(
        rule,
        "a collection is not mutated inside a for loop that iterates over it directly (`for t in tasks: ... "
        "tasks.remove(t)`): removing the current element makes the iterator skip the next one - of two adjacent "
        "entries that must both be dropped (two deferred fragments under a nulled position) the second survives. "
        "Loops over a copy (`list(xs)`) and a mutation immediately followed by break/return are fine",
    )
    n = 0
    for fn in funcs:
        loops = [l for l in walk_body(fn) if isinstance(l, (ast.For, ast.AsyncFor))]
        if not loops:
            continue
        bad = iter_mutations(fn)
        n += 1
        check.ob(rule, fn, f"{getattr(fn, 'name', '?')}: no loop mutates what it iterates", not bad,
                 f"{len(loops)} loop(s)" if not bad else
                 f"`{node_text(bad[0][1], 50)}` (line {bad[0][1].lineno}) mutates `{unparse(bad[0][0].iter)}` while it is being iterated",
                 nontrivial=bool(bad))
    fx = fixture("generic_controls")
    check.control(f"{rule}:bad", bool(iter_mutations(fx.get("itermut_bad"))), True)
    check.control(f"{rule}:ok", bool(iter_mutations(fx.get("itermut_ok"))), False)
    return n


# --------------------------------------------------------------------------- #
# CLASS-MEMO-OWN


def _class_params(fn: ast.AST) -> set[str]:
    out = set()
    args = fn.args
    for a in list(args.posonlyargs) + list(args.args) + list(args.kwonlyargs):
        ann = unparse(a.annotation) if a.annotation is not None else ""
        if a.arg in ("cls", "owner", "klass") or ann == "type" or ann.startswith(("type[", "Type[")):
            out.add(a.arg)
    return out


def class_memo_sites(fn: ast.AST) -> list[tuple[ast.AST, str, str]]:
    """(read site, class variable, attribute): a per-class memo written as `cls.<a> = f(cls)` whose presence
    is probed through ordinary attribute lookup on the class (which consults the base classes)."""
    out = []
    for c in _class_params(fn):
        written: dict[str, ast.AST] = {}
        for n in walk_body(fn):
            if isinstance(n, (ast.Assign, ast.AnnAssign)):
                tgts = n.targets if isinstance(n, ast.Assign) else [n.target]
                for t in tgts:
                    if isinstance(t, ast.Attribute) and isinstance(t.value, ast.Name) and t.value.id == c and n.value is not None:
                        written[t.attr] = n.value
            elif isinstance(n, ast.Call) and call_name(n) == "setattr" and len(n.args) == 3 and unparse(n.args[0]) == c \
                    and isinstance(n.args[1], ast.Constant):
                written[str(n.args[1].value)] = n.args[2]
        for attr, value in written.items():
            # the memoised value is specific to the class: computed from the class (directly or through locals)
            deps = {x.id for x in ast.walk(value) if isinstance(x, ast.Name)}
            local_from_cls = set()
            for n in walk_body(fn):
                if isinstance(n, ast.Assign) and any(isinstance(x, ast.Name) and x.id == c for x in ast.walk(n.value)):
                    local_from_cls |= {t.id for t in n.targets if isinstance(t, ast.Name)}
            if c not in deps and not (deps & local_from_cls):
                continue
            for n in walk_body(fn):
                probe = None
                if isinstance(n, ast.Call) and call_name(n) in ("hasattr", "getattr") and len(n.args) >= 2 and unparse(n.args[0]) == c \
                        and isinstance(n.args[1], ast.Constant) and n.args[1].value == attr and (call_name(n) == "hasattr" or len(n.args) == 3):
                    probe = n
                elif isinstance(n, ast.Attribute) and isinstance(n.ctx, ast.Load) and n.attr == attr and isinstance(n.value, ast.Name) and n.value.id == c:
                    t = next((a for a in ancestors(n) if isinstance(a, ast.Try)), None)
                    if t is not None and any(n is x for s in t.body for x in ast.walk(s)) and any(
                            "AttributeError" in unparse(h.type) for h in t.handlers if h.type is not None):
                        probe = n
                if probe is not None:
                    out.append((probe, c, attr))
    return out


def class_memo_own(check: Check, funcs: Iterable[ast.AST], rule: str = "CLASS-MEMO-OWN") -> int:
    check.rule(
        rule,
        "a value memoised per class - `cls.<a> = <computed from cls>` in a descriptor / classmethod / "
        "__init_subclass__ - is looked up in the class's own namespace (`'<a>' in cls.__dict__`, vars(cls)): a probe "
        "through ordinary attribute lookup (hasattr(cls, a), getattr(cls, a, default), try: cls.a except "
        "AttributeError) also finds the memo of a *base* class, so a subclass is served its parent's value once "
        "the parent was asked first (Node.keys of SelectionNode handed to FieldNode: visit() rebuilds an edited "
        "field from the wrong field list and drops its children)",
    )
    n = 0
    fx = fixture("generic_controls")
    bad_fn = next(f for f in fx.get("class_memo_bad").body if isinstance(f, ast.FunctionDef))
    ok_fns = [f for f in fx.get("class_memo_ok").body if isinstance(f, ast.FunctionDef)]
    check.control(f"{rule}:bad", bool(class_memo_sites(bad_fn)), True)
    check.control(f"{rule}:ok", any(class_memo_sites(f) for f in ok_fns), False)
    for fn in funcs:
        if isinstance(fn, ast.Lambda) or not _class_params(fn):
            continue
        sites = class_memo_sites(fn)
        n += 1
        check.ob(rule, fn, f"{qualname_of(fn)}: per-class memo", not sites,
                 "no per-class memo probed through inherited lookup" if not sites else
                 "; ".join(f"line {s.lineno}: `{unparse(s)}` finds `{c}.{a}` of a base class as well" for s, c, a in sites),
                 nontrivial=bool(sites))
    return n


# --------------------------------------------------------------------------- #
# KWARGS-COMPLETE, PARAM-READONLY, INDEPENDENT-KEYS


def typed_dicts(repo: Repo) -> dict[str, list[str]]:
    """name -> keys (own and inherited) of every `...Kwargs` TypedDict class of the package."""
    classes = {c.name: c for m in repo.modules.values() for c in m.classes()}

    def keys(name: str, seen: frozenset = frozenset()) -> list[str] | None:
        c = classes.get(name)
        if c is None or name in seen:
            return None
        out: list[str] = []
        typed = False
        for b in c.bases:
            bn = unparse(b).split(".")[-1]
            if bn == "TypedDict":
                typed = True
            else:
                sub = keys(bn, seen | {name})
                if sub is not None:
                    typed = True
                    out += sub
        if not typed:
            return None
        out += [s.target.id for s in c.body if isinstance(s, ast.AnnAssign) and isinstance(s.target, ast.Name)]
        return out

    return {n: k for n in classes if n.endswith("Kwargs") for k in [keys(n)] if k}


def kwargs_complete(check: Check, repo: Repo, mods: Iterable[Module], rule: str = "KWARGS-COMPLETE") -> int:
    check.rule(
        rule,
        "the `...Kwargs` TypedDicts are the copy format of schema elements (to_kwargs() -> mapper -> constructor) and "
        "are declared total=False, so the type checker accepts a literal that leaves a key out: every place that writes "
        "one out in full - a call `XKwargs(k=..., ...)` or a dict literal annotated as XKwargs - names every key of the "
        "TypedDict (own and inherited) unless it spreads another mapping into it. A copy that omits `deprecation_reason` "
        "silently un-deprecates every argument that passes through sort/extend",
    )
    tds = typed_dicts(repo)
    if len(tds) < 10:
        raise AnalysisError(f"KWARGS-COMPLETE: TypedDicts not found ({len(tds)})")
    n = 0
    for m in mods:
        for x in ast.walk(m.tree):
            name, keys, spread = None, [], False
            if isinstance(x, ast.Call) and isinstance(x.func, ast.Name) and x.func.id in tds:
                name, keys, spread = x.func.id, [k.arg for k in x.keywords if k.arg], bool(x.args) or any(k.arg is None for k in x.keywords)
            elif isinstance(x, ast.AnnAssign) and isinstance(x.value, ast.Dict) and unparse(x.annotation).strip("'\"") in tds:
                name = unparse(x.annotation).strip("'\"")
                keys = [k.value for k in x.value.keys if isinstance(k, ast.Constant)]
                spread = any(k is None for k in x.value.keys)
            if name is None:
                continue
            n += 1
            missing = sorted(set(tds[name]) - set(keys))
            check.ob(rule, x, f"{qualname_of(x)}: {name} written out", spread or not missing,
                     f"all {len(tds[name])} keys" if not missing else ("spreads another mapping" if spread else f"omits {missing}: those attributes are reset to their defaults in the copy"))
    return n


_MUTATING_METHODS = {"append", "extend", "insert", "pop", "remove", "clear", "update", "setdefault", "popitem", "add", "discard", "sort", "reverse"}


def param_mutations(fn: ast.AST) -> list[ast.AST]:
    if isinstance(fn, ast.Lambda):
        return []
    ps = {a.arg for a in fn.args.posonlyargs + fn.args.args + fn.args.kwonlyargs} - {"self", "cls"}

    def may_be_param(e: ast.AST) -> str | None:
        if isinstance(e, ast.Name) and e.id in ps:
            return e.id
        if isinstance(e, ast.IfExp):
            return may_be_param(e.body) or may_be_param(e.orelse)
        if isinstance(e, ast.BoolOp):
            return next((r for r in map(may_be_param, e.values) if r), None)
        return None

    # locals that may be the very object a parameter refers to (`m = {} if p is None else p`)
    alias = {}
    for s in walk_body(fn):
        v = s.value if isinstance(s, (ast.Assign, ast.AnnAssign)) else None
        tgts = (s.targets if isinstance(s, ast.Assign) else [s.target]) if v is not None else []
        src = may_be_param(v) if v is not None else None
        if src:
            for t in tgts:
                if isinstance(t, ast.Name) and t.id not in ps:
                    alias[t.id] = src
    out = []
    for n in walk_body(fn):
        base = None
        if isinstance(n, (ast.Subscript, ast.Attribute)) and isinstance(n.ctx, (ast.Store, ast.Del)):
            base = n.value
        elif isinstance(n, ast.Call) and isinstance(n.func, ast.Attribute) and n.func.attr in _MUTATING_METHODS:
            base = n.func.value
        elif isinstance(n, ast.Call) and isinstance(n.func, ast.Attribute) and n.func.attr in ("__init__", "__setattr__", "__setstate__") and n.args \
                and not (isinstance(n.func.value, ast.Call) and call_name(n.func.value) == "super"):
            base = n.args[0]  # Class.__init__(obj, ...) re-initialises obj in place
        elif isinstance(n, ast.Call) and isinstance(n.func, ast.Name) and n.func.id in ("setattr", "delattr") and n.args:
            base = n.args[0]
        while isinstance(base, (ast.Subscript, ast.Attribute)):
            base = base.value
        if isinstance(base, ast.Name) and base.id in alias:
            out.append(n)
            continue
        if isinstance(base, ast.Name) and base.id in ps:
            # re-bound locally before the write? then it is no longer the caller's object
            rebound = any(isinstance(s, ast.Assign) and any(isinstance(t, ast.Name) and t.id == base.id for t in s.targets) and s.lineno < n.lineno
                          for s in fn.body)  # an unconditional re-binding at the top level of the function
            if not rebound:
                out.append(n)
    return out


def param_readonly(check: Check, funcs: Iterable[ast.AST], rule: str = "PARAM-READONLY") -> int:
    check.rule(
        rule,
        "the schema transformers (map_schema_config, extend_schema, lexicographic_sort_schema, the builders) are pure: "
        "no function of these modules stores into, deletes from or calls a mutating method on an object it received as a "
        "parameter (<param>[k] = v, <param>.attr = v, <param>.append(...)). to_kwargs() hands out some containers "
        "uncopied (GraphQLDirective.args), so writing through a parameter rewrites the *original* schema: after "
        "extend_schema the old schema's directive arguments would carry the new schema's types",
    )
    fx = fixture("generic_controls")
    check.control(f"{rule}:bad", bool(param_mutations(fx.get("param_readonly_bad"))), True)
    check.control(f"{rule}:ok", bool(param_mutations(fx.get("param_readonly_ok"))), False)
    n = 0
    for fn in funcs:
        if isinstance(fn, ast.Lambda):
            continue
        bad = param_mutations(fn)
        n += 1
        check.ob(rule, fn, f"{qualname_of(fn)}: parameters are read only", not bad,
                 "no write through a parameter" if not bad else "; ".join(f"line {b.lineno}: `{unparse(b)[:50]}`" for b in bad[:3]) + " writes into the caller's object",
                 nontrivial=bool(bad))
    return n


def independent_key_breaks(fn: ast.AST) -> list[tuple[ast.For, ast.Break]]:
    """`break` in a loop over a fixed set of independent keys whose body stores one result per key."""
    out = []
    consts: dict[str, ast.AST] = {}
    for s in walk_body(fn):
        v = s.value if isinstance(s, (ast.Assign, ast.AnnAssign)) else None
        tgt = (s.targets[0] if isinstance(s, ast.Assign) else s.target) if v is not None else None
        if isinstance(tgt, ast.Name) and v is not None:
            consts[tgt.id] = v

    def fixed_keys(it: ast.AST) -> bool:
        if isinstance(it, ast.Name) and it.id in consts:
            it = consts[it.id]
        if isinstance(it, (ast.Tuple, ast.List, ast.Set)) and it.elts and all(isinstance(e, ast.Constant) for e in it.elts):
            return True
        if isinstance(it, ast.Dict) and it.keys and all(isinstance(k, ast.Constant) for k in it.keys):
            return True
        if isinstance(it, ast.Call) and unparse(it.func) == "dict.fromkeys" and it.args:
            return fixed_keys(it.args[0])
        return False

    for loop in walk_body(fn):
        if not (isinstance(loop, ast.For) and isinstance(loop.target, ast.Name) and fixed_keys(loop.iter)):
            continue
        k = loop.target.id
        stores = [x for s in loop.body for x in ast.walk(s) if isinstance(x, ast.Subscript) and isinstance(x.ctx, ast.Store)
                  and isinstance(x.slice, ast.Name) and x.slice.id == k]
        if not stores:
            continue
        for s in loop.body:
            if isinstance(s, ast.If):
                for b in s.body + s.orelse:
                    if isinstance(b, ast.Break):
                        out.append((loop, b))
    # the general form: any loop that stores one entry per element under a key derived from the element
    for loop in walk_body(fn):
        if not isinstance(loop, ast.For) or any(l is loop for l, _b in out):
            continue
        derived = {x.id for x in ast.walk(loop.target) if isinstance(x, ast.Name)}
        for _ in range(3):
            for s in ast.walk(loop):
                if isinstance(s, ast.Assign) and any(isinstance(x, ast.Name) and x.id in derived for x in ast.walk(s.value)):
                    derived |= {t.id for t in s.targets if isinstance(t, ast.Name)}
        stores = [x for s in loop.body for x in ast.walk(s) if isinstance(x, ast.Subscript) and isinstance(x.ctx, ast.Store)
                  and any(isinstance(y, ast.Name) and y.id in derived for y in ast.walk(x.slice))]
        if not stores:
            continue
        for b in ast.walk(loop):
            if isinstance(b, ast.Break):
                owner = parent(b)
                while owner is not None and not isinstance(owner, (ast.For, ast.While)):
                    owner = parent(owner)
                if owner is loop:
                    out.append((loop, b))
    return out


def independent_keys(check: Check, funcs: Iterable[ast.AST], rule: str = "INDEPENDENT-KEYS") -> int:
    check.rule(
        rule,
        "a loop that stores one result per element under a key taken from the element (`out[name] = ...`; in "
        "particular a loop over a fixed tuple of names) treats the elements independently: it is not left with `break` "
        "when one of them has nothing to contribute (`continue` is meant). An optional variable that was not provided "
        "must not stop the coercion of the variables declared after it; folding the three root "
        "operation types into `for operation in ('query', 'mutation', 'subscription')` with `if root is None: break` drops "
        "the subscription root of every schema without a mutation type",
    )
    fx = fixture("generic_controls")
    check.control(f"{rule}:bad", bool(independent_key_breaks(fx.get("independent_keys_bad"))), True)
    check.control(f"{rule}:ok", bool(independent_key_breaks(fx.get("independent_keys_ok"))), False)
    n = 0
    for fn in funcs:
        if isinstance(fn, ast.Lambda):
            continue
        bad = independent_key_breaks(fn)
        if not bad and not any(isinstance(l, ast.For) for l in walk_body(fn)):
            continue
        n += 1
        check.ob(rule, fn, f"{qualname_of(fn)}: loops over fixed keys", not bad,
                 "no early break" if not bad else f"`break` at line {bad[0][1].lineno} leaves the remaining keys of `for {unparse(bad[0][0].target)} in {unparse(bad[0][0].iter)[:40]}` unprocessed",
                 nontrivial=bool(bad))
    return n


# --------------------------------------------------------------------------- #
# CACHED-MUTABLE-RESULT


def cached_mutable_returns(fn: ast.AST) -> list[ast.Return]:
    """Returns of a fresh mutable container from a function memoised by functools (lru_cache / cache / cached_property
    is not included: a cached_property is per instance and documented as such)."""
    if not _cache_decorated(fn):
        return []
    out = []
    for r in walk_body(fn):
        if isinstance(r, ast.Return) and r.value is not None:
            v = r.value
            if isinstance(v, (ast.Dict, ast.List, ast.Set, ast.DictComp, ast.ListComp, ast.SetComp)) or (
                    isinstance(v, ast.Call) and isinstance(v.func, ast.Name) and v.func.id in _MUTABLE_CALLS):
                out.append(r)
    return out


def cached_mutable_result(check: Check, mods: Iterable[Module], rule: str = "CACHED-MUTABLE-RESULT") -> int:
    check.rule(
        rule,
        "a function memoised with functools.lru_cache / cache does not return a mutable container it has just built "
        "(dict / list / set display or comprehension): the cache hands the *same* object to every caller, so one caller "
        "editing its result - shifting the line of a formatted location by a file offset - changes what every later "
        "caller with equal arguments receives (error.formatted['locations'] no longer agrees with error.locations)",
    )
    fx = fixture("generic_controls")
    check.control(f"{rule}:bad", bool(cached_mutable_returns(fx.get("cached_dict_bad"))), True)
    check.control(f"{rule}:ok", bool(cached_mutable_returns(fx.get("cached_bad"))), False)
    n = 0
    for m in mods:
        for fn in m.functions():
            if isinstance(fn, ast.Lambda) or not _cache_decorated(fn):
                continue
            n += 1
            bad = cached_mutable_returns(fn)
            check.ob(rule, fn, f"{qualname_of(fn)}: memoised result", not bad,
                     "immutable / not built on the spot" if not bad else f"returns a fresh `{unparse(bad[0].value)[:40]}` that all callers will share")
    if n == 0:
        check.ob(rule, next(iter(mods)).tree if mods else ast.Module(body=[], type_ignores=[]), "no functools-memoised function in scope", True, "nothing to check", nontrivial=False)
    return n


# --------------------------------------------------------------------------- #
# IMPLICIT-CONCAT


def implicit_word_concats(mod: Module) -> list[tuple[ast.Constant, list[str]]]:
    """String constants written as two or more adjacent literals that are each one identifier-like word - a tuple of
    names that lost its commas (`("true" "false" "null")` is the str 'truefalsenull')."""
    import io
    import re
    import tokenize

    src = mod.src
    out = []
    word = re.compile(r"[A-Za-z_][A-Za-z_0-9]*\Z")
    for c in ast.walk(mod.tree):
        if not (isinstance(c, ast.Constant) and isinstance(c.value, str) and c.end_lineno is not None):
            continue
        if c.end_lineno == c.lineno and c.end_col_offset - c.col_offset <= len(c.value) + 3:
            continue  # one literal
        seg = ast.get_source_segment(src, c)
        if not seg:
            continue
        try:
            toks = [t for t in tokenize.generate_tokens(io.StringIO("(" + seg + ")").readline) if t.type == tokenize.STRING]
        except (tokenize.TokenError, SyntaxError):
            continue
        if len(toks) < 2:
            continue
        parts = []
        for t in toks:
            try:
                parts.append(ast.literal_eval(t.string))
            except Exception:  # noqa: BLE001
                parts = []
                break
        if parts and all(isinstance(p_, str) and word.match(p_) for p_ in parts):
            out.append((c, parts))
    return out


def implicit_concat(check: Check, mods: Iterable[Module], rule: str = "IMPLICIT-CONCAT") -> int:
    check.rule(
        rule,
        "no string constant is written as several adjacent literals that are each a single identifier-like word: "
        "adjacent literals concatenate, so `('true' 'false' 'null')` - a tuple of names that lost its commas - is the "
        "one string 'truefalsenull', and `name in <that>` silently becomes a substring test (an enum value called `s`, `e` or "
        "`nul` is refused as 'reserved'). Sentences split over lines (parts with blanks or punctuation) are not concerned",
    )
    fx = fixture("generic_controls")
    fmod = fx if hasattr(fx, "tree") else None
    if fmod is not None:
        hits = {tuple(p) for _c, p in implicit_word_concats(fmod)}
        check.control(f"{rule}:bad", ("true", "false", "null") in hits, True)
        check.control(f"{rule}:ok", ("not", "concatenated") in hits, False)
    n = 0
    for m in mods:
        bad = implicit_word_concats(m)
        n += 1
        for c, parts in bad:
            check.ob(rule, c, f"{m.rel.split('graphql/')[-1]}: {' '.join(repr(p_) for p_ in parts)[:60]}", False,
                     f"{len(parts)} adjacent word literals form the single string {''.join(parts)!r}: commas missing?")
        if not bad:
            check.ob(rule, m.tree, f"{m.rel.split('graphql/')[-1]}: string constants", True, "no word-by-word implicit concatenation", nontrivial=False)
    return n
