"""WRITE-EFFECT: who may write shared state (DESIGN.md §3.3).

A write site is reported when the object it mutates is, by mypy's type of the
receiver expression (or of the object a collection was read from, one alias
level deep),
  (a) an AST object (Node subclasses, Token, Location, Source),
  (b) a schema object (GraphQLSchema, named types, fields, arguments, enum values,
      directives, default inputs) or a collection read from one,
  (c) a module-level mutable object,
  (e) a context object shared between validation rules (when configured),
unless the object is fresh in the function (created on every reaching
definition), the function is a method/constructor of that very class, or the
site is in the caller's allow table (one named construct, one reason each).
"""

from __future__ import annotations

import ast
from typing import Iterable

from rules.astmodel import AstModel
from sa.effects import Origins, WriteSite, is_fresh_expr, write_sites
from sa.loader import (
    FuncDef, Module, Repo, enclosing_def, enclosing_function, module_of, parent, qualname_of, unparse,
)  # fmt: skip
from sa.mtypes import MTypes
from sa.report import Check, node_text
from sa.tables import resolve_name


def top_heads(type_text: str) -> set[str]:
    """Outermost type constructors of a mypy type text (union members split)."""
    parts, depth, cur = [], 0, ""
    i = 0
    while i < len(type_text):
        c = type_text[i]
        if c in "[(":
            depth += 1
        elif c in "])":
            depth -= 1
        if depth == 0 and type_text.startswith(" | ", i):
            parts.append(cur)
            cur = ""
            i += 3
            continue
        cur += c
        i += 1
    parts.append(cur)
    heads = set()
    for p in parts:
        p = p.strip()
        if p.startswith("Literal["):
            inner = p[len("Literal["):].rstrip("?").rstrip("]")
            if inner[:1] in "'\"":
                heads.add("builtins.str")
            elif inner in ("True", "False"):
                heads.add("builtins.bool")
            elif inner.lstrip("-").isdigit():
                heads.add("builtins.int")
            else:
                heads.add(inner.rsplit(".", 1)[0])  # enum member -> its class
            continue
        for stop in "[(":
            if stop in p:
                p = p[: p.index(stop)]
        if p.endswith("?"):
            p = p[:-1]
        p = p.strip()
        if p in _BUILTINS:
            p = "builtins." + p
        heads.add(p)
    return heads


_BUILTINS = {"str", "int", "float", "bool", "bytes", "list", "dict", "set", "frozenset", "tuple", "object", "complex"}


class Protected:
    def __init__(self, repo: Repo, extra: Iterable[str] = ()) -> None:
        model = AstModel(repo)
        self.ast = {f"graphql.language.ast.{c}" for c in model.classes} | {
            "graphql.language.ast.Token", "graphql.language.ast.Location", "graphql.language.source.Source",
        }  # fmt: skip
        self.schema: set[str] = set()
        for mn in ("type.definition", "type.schema", "type.directives"):
            mod = repo.mod(mn)
            for c in mod.classes():
                if c.name.startswith("GraphQL") and not c.name.endswith(("Kwargs", "Error")) and "." not in c.qualname:  # type: ignore[attr-defined]
                    self.schema.add(f"{mod.name}.{c.name}")
        self.extra = set(extra)

    def classify(self, heads: set[str]) -> str | None:
        if heads & self.ast:
            return "AST object"
        if heads & self.schema:
            return "schema object"
        if heads & self.extra:
            return "shared context object"
        return None


def _is_method_of(func: ast.AST, heads: set[str]) -> bool:
    d = enclosing_def(func)
    while d is not None and not isinstance(d, ast.ClassDef):
        d = enclosing_def(d)
    if d is None:
        return False
    mod = module_of(d)
    return f"{mod.name}.{d.qualname}" in heads  # type: ignore[attr-defined]


def check_writes(
    check: Check,
    repo: Repo,
    rule: str,
    funcs: Iterable[ast.AST],
    prot: Protected,
    allow: dict[tuple[str, str], str] | None = None,
    report_module_state: bool = True,
) -> int:
    """One obligation per write site of the given functions."""
    allow = allow or {}
    mt = MTypes.get(repo)
    n = 0
    used_allow: set[tuple[str, str]] = set()
    for fn in funcs:
        if isinstance(parent(fn), (*FuncDef, ast.Lambda)):
            continue  # nested functions are reached through their outermost function
        mod = module_of(fn)
        origins: Origins | None = None
        for w in write_sites(fn):
            if w.detail == "+=":
                ty0 = mt.type_of(w.target)
                if not ty0 or not (top_heads(ty0) & {"builtins.list", "builtins.set", "builtins.dict", "collections.deque"}):
                    continue  # rebinding of an immutable value (str/int/tuple), not a mutation
            n += 1
            verdict, why = _judge(w, fn, mod, repo, prot, mt, report_module_state)
            if origins is None and verdict is None and isinstance(w.target, ast.Name):
                pass
            if verdict is None and isinstance(w.target, ast.Name) and w.kind in ("mutator", "item-store", "del"):
                # one alias level: the local may be a collection read from a protected object
                inner = enclosing_function(w.node) or fn
                if inner is fn:
                    origins = origins or Origins(fn)
                    o = origins
                else:
                    o = Origins(inner)
                for d in o.reaching(w.target.id, w.node):
                    if d.kind in ("assign", "walrus") and isinstance(d.value, ast.Attribute):
                        base_t = mt.type_of(d.value.value)
                        cls = prot.classify(top_heads(base_t)) if base_t else None
                        if cls and not is_fresh_expr(d.value):
                            verdict = cls
                            why = f"`{w.target.id}` aliases `{unparse(d.value)}` (line {d.node.lineno}), a collection of a {cls}"
                    elif d.kind in ("assign", "walrus") and isinstance(d.value, ast.Call) and isinstance(d.value.func, ast.Attribute):
                        # result of a method of a protected object that hands out its own (stored) collection
                        base_t = mt.type_of(d.value.func.value)
                        bh = top_heads(base_t) if base_t else set()
                        cls = prot.classify(bh)
                        if cls and _hands_out_own_state(repo, bh, d.value.func.attr):
                            verdict = cls
                            why = (f"`{w.target.id}` is the collection returned by `{unparse(d.value.func)}()` (line {d.node.lineno}), "
                                   f"which that {cls} keeps for itself")
            key = (qualname_of(w.node), node_text(w.node, 90))
            if verdict is None:
                check.ob(rule, w.node, f"{w.kind} {w.chain}.{w.detail}", True, why, nontrivial=why != "local")
                continue
            reason = allow.get(key)
            if reason is None:
                # allow entries may also be keyed by (function, receiver chain + attr)
                key2 = (qualname_of(w.node), f"{w.chain}.{w.detail}")
                reason = allow.get(key2)
                key = key2 if reason is not None else key
            if reason is not None:
                used_allow.add(key)
                check.ob(rule, w.node, f"{w.kind} {w.chain}.{w.detail}", True, f"allow-listed memo site: {reason}")
            else:
                check.ob(rule, w.node, f"{w.kind} {w.chain}.{w.detail} :: {node_text(w.node, 70)}", False,
                         f"writes a {verdict}: {why}")
    return n


_hands_out_cache: dict[tuple[str, str], bool] = {}


def _hands_out_own_state(repo: Repo, heads: set[str], method: str) -> bool:
    """Does `method` of (one of) the classes return an object it also keeps in self.<attr>?"""
    from sa.resolve import ClassIndex

    classes = ClassIndex(repo)
    for h in heads:
        key = (h, method)
        if key in _hands_out_cache:
            if _hands_out_cache[key]:
                return True
            continue
        ci = classes.by_full.get(h)
        res = False
        if ci is not None:
            found = classes.find_method(ci, method)
            if found is not None:
                m = found[1]
                kept: set[str] = set()
                for n in ast.walk(m):
                    if isinstance(n, ast.Assign):
                        names = [t for t in n.targets if isinstance(t, ast.Name)]
                        stores_self = any(
                            (isinstance(t, ast.Attribute) and unparse(t.value) == "self")
                            or (isinstance(t, ast.Subscript) and isinstance(t.value, ast.Attribute) and unparse(t.value.value) == "self")
                            for t in n.targets)
                        from_self = any(isinstance(x, ast.Attribute) and isinstance(x.value, ast.Name) and x.value.id == "self" for x in ast.walk(n.value)) \
                            and not is_fresh_expr(n.value)
                        if names and (stores_self or from_self):
                            kept |= {t.id for t in names}
                for r in ast.walk(m):
                    if isinstance(r, ast.Return) and r.value is not None:
                        if isinstance(r.value, ast.Name) and r.value.id in kept:
                            res = True
                        if isinstance(r.value, ast.Attribute) and unparse(r.value.value) == "self":
                            res = True
        _hands_out_cache[key] = res
        if res:
            return True
    return False


_shared_attr_cache: dict[ast.ClassDef, dict[str, str]] = {}


def shared_attrs(cls: ast.ClassDef, mod: Module, repo: Repo) -> dict[str, str]:
    """Attributes of `cls` whose value is shared between instances: a mutable object
    bound in the class body, or `self.x = <module-level name>` in a method."""
    if cls in _shared_attr_cache:
        return _shared_attr_cache[cls]
    out: dict[str, str] = {}
    for s in cls.body:
        tgt, val = None, None
        if isinstance(s, ast.Assign) and len(s.targets) == 1 and isinstance(s.targets[0], ast.Name):
            tgt, val = s.targets[0].id, s.value
        elif isinstance(s, ast.AnnAssign) and isinstance(s.target, ast.Name) and s.value is not None:
            tgt, val = s.target.id, s.value
        if tgt and isinstance(val, (ast.Dict, ast.List, ast.Set, ast.ListComp, ast.DictComp, ast.SetComp)):
            out[tgt] = f"class-level mutable `{tgt}` (line {s.lineno}) is shared by all instances"
        elif tgt and isinstance(val, ast.Call) and isinstance(val.func, ast.Name) and val.func.id in (
                "dict", "list", "set", "defaultdict", "deque", "OrderedDict"):
            out[tgt] = f"class-level mutable `{tgt}` (line {s.lineno}) is shared by all instances"
    for m in cls.body:
        if isinstance(m, FuncDef):
            for n in ast.walk(m):
                if isinstance(n, (ast.Assign, ast.AnnAssign)) and isinstance(n.value, ast.Name):
                    tgts = n.targets if isinstance(n, ast.Assign) else [n.target]
                    for t in tgts:
                        if isinstance(t, ast.Attribute) and isinstance(t.value, ast.Name) and t.value.id == "self":
                            if n.value.id not in _bound_names(m):
                                r = resolve_name(repo, mod, n.value.id)
                                if r is not None and r[1] and r[0].toplevel_assign(r[1]) is not None:
                                    out[t.attr] = f"`self.{t.attr}` is bound to module-level `{n.value.id}` (line {n.lineno})"
    _shared_attr_cache[cls] = out
    return out


def _shared_self_attr(t: ast.AST, w: WriteSite, fn: ast.AST, mod: Module, repo: Repo) -> str | None:
    d = enclosing_def(fn) if not isinstance(fn, ast.ClassDef) else fn
    while d is not None and not isinstance(d, ast.ClassDef):
        d = enclosing_def(d)
    if d is None:
        return None
    shared = shared_attrs(d, mod, repo)
    if not shared:
        return None
    # self.X... directly
    root = t
    while isinstance(root, (ast.Attribute, ast.Subscript)) and not (
            isinstance(root, ast.Attribute) and isinstance(root.value, ast.Name) and root.value.id == "self"):
        root = root.value
    if isinstance(root, ast.Attribute) and root.attr in shared and isinstance(root.value, ast.Name) and root.value.id == "self":
        if w.kind == "attr-store" and root is t:
            return None
        return shared[root.attr]
    if isinstance(t, ast.Name):
        inner = enclosing_function(w.node) or fn
        for df in Origins(inner).reaching(t.id, w.node):
            v = df.value
            if df.kind in ("assign", "walrus") and isinstance(v, ast.Attribute) and isinstance(v.value, ast.Name) \
                    and v.value.id == "self" and v.attr in shared:
                return shared[v.attr]
    return None


def _judge(w: WriteSite, fn: ast.AST, mod: Module, repo: Repo, prot: Protected, mt: MTypes,
           report_module_state: bool) -> tuple[str | None, str]:
    if report_module_state and w.kind in ("mutator", "item-store", "del"):
        why = _shared_self_attr(w.target, w, fn, mod, repo)
        if why:
            return "module/class-level object", why
    return _judge0(w, fn, mod, repo, prot, mt, report_module_state)


def _judge0(w: WriteSite, fn: ast.AST, mod: Module, repo: Repo, prot: Protected, mt: MTypes,
            report_module_state: bool) -> tuple[str | None, str]:
    t = w.target
    ty = mt.type_of(t) if hasattr(t, "lineno") else None
    heads = top_heads(ty) if ty else set()
    # attribute stores: the receiver itself is the object written
    if w.kind in ("attr-store", "setattr") or (w.kind == "del" and w.detail != "[]"):
        cls = prot.classify(heads)
        if cls:
            if isinstance(t, ast.Name) and t.id in ("self", "cls") and _is_method_of(fn, heads):
                return None, "own attribute of the class being defined"
            if _fresh_name(t, w, fn):
                return None, "object created in this function"
            return cls, f"receiver `{unparse(t)}` has type {sorted(heads & (prot.ast | prot.schema | prot.extra))}"
        return _module_state(t, fn, mod, repo) if report_module_state else (None, "not a protected receiver")
    # container mutation: protected if the container was read from a protected object
    if isinstance(t, ast.Attribute):
        base_t = mt.type_of(t.value)
        bh = top_heads(base_t) if base_t else set()
        cls = prot.classify(bh)
        if cls:
            if isinstance(t.value, ast.Name) and t.value.id in ("self", "cls") and _is_method_of(fn, bh):
                return None, "own collection of the class being defined"
            return cls, f"`{unparse(t)}` is a collection of `{unparse(t.value)}`: {sorted(bh & (prot.ast | prot.schema | prot.extra))}"
        return None, "collection of an unprotected object"
    if isinstance(t, ast.Subscript):
        # x[k].append(...): the element container of a container
        inner = WriteSite(w.node, w.kind, t.value, w.detail)
        return _judge0(inner, fn, mod, repo, prot, mt, report_module_state)
    if isinstance(t, ast.Name):
        cls = prot.classify(heads)
        if cls and w.kind in ("item-store", "mutator"):
            # e.g. a Node used as a mapping - not a thing in this code base
            return cls, f"receiver `{t.id}` has type {sorted(heads)}"
        return _module_state(t, fn, mod, repo) if report_module_state else (None, "local")
    return None, "unclassified receiver"


def _fresh_name(t: ast.AST, w: WriteSite, fn: ast.AST) -> bool:
    if not isinstance(t, ast.Name):
        return False
    inner = enclosing_function(w.node) or fn
    defs = Origins(inner).reaching(t.id, w.node)
    return bool(defs) and all(d.kind in ("assign", "walrus") and is_fresh_expr(d.value) for d in defs)


def _module_state(t: ast.AST, fn: ast.AST, mod: Module, repo: Repo) -> tuple[str | None, str]:
    root = t
    while isinstance(root, (ast.Attribute, ast.Subscript)):
        root = root.value
    if not isinstance(root, ast.Name):
        return None, "local"
    name = root.id
    # local if bound anywhere in the enclosing function chain
    f: ast.AST | None = enclosing_function(t) or fn
    while f is not None:
        if isinstance(f, ast.Lambda):
            bound = {a.arg for a in f.args.args}
        else:
            bound = _bound_names(f)
        if name in bound:
            return None, "local"
        f = enclosing_function(f)
    if name in ("self", "cls"):
        return None, "instance state"
    r = resolve_name(repo, mod, name)
    if r is not None:
        tm, local = r
        if local and tm.toplevel_assign(local) is not None:
            return "module-level object", f"`{name}` is bound at module level in {tm.rel}"
    return None, "local"


_bound_cache: dict[ast.AST, set[str]] = {}


def _bound_names(fn: ast.AST) -> set[str]:
    if fn in _bound_cache:
        return _bound_cache[fn]
    out: set[str] = set()
    a = fn.args  # type: ignore[attr-defined]
    for arg in [*a.posonlyargs, *a.args, *a.kwonlyargs]:
        out.add(arg.arg)
    if a.vararg:
        out.add(a.vararg.arg)
    if a.kwarg:
        out.add(a.kwarg.arg)
    stack = list(fn.body)  # type: ignore[attr-defined]
    while stack:
        n = stack.pop()
        if isinstance(n, (ast.FunctionDef, ast.AsyncFunctionDef, ast.ClassDef)):
            out.add(n.name)
            continue
        if isinstance(n, ast.Lambda):
            continue
        if isinstance(n, ast.Name) and isinstance(n.ctx, (ast.Store, ast.Del)):
            out.add(n.id)
        elif isinstance(n, ast.ExceptHandler) and n.name:
            out.add(n.name)
        elif isinstance(n, (ast.Import, ast.ImportFrom)):
            for al in n.names:
                out.add((al.asname or al.name).split(".")[0])
        elif isinstance(n, (ast.Global, ast.Nonlocal)):
            pass
        stack.extend(ast.iter_child_nodes(n))
    _bound_cache[fn] = out
    return out
