"""KIND-TABLE: decision tables of the pure type-kind functions against the specification.

`do_types_conflict`, `is_type_sub_type_of`, `is_equal_type` and `do_types_overlap` are
pure case analyses on the *kind* of their type arguments (Scalar, Enum, Object, Interface,
Union, InputObject, List, NonNull) and on whether the two arguments are the same object.
That domain is finite (8 x 8 x {same, distinct}), so the function body is folded, without
being executed, into a table

        (kind of a, kind of b, same object?)  ->  True | False | REC(args) | CALL(text)

by an abstract walk of its if/return structure: `is_x_type(p)` is decided from the class
sets the predicates test (read from type/definition.py), `a is b` from the same/distinct
flag (two values of different kinds are never the same object), boolean connectives are
folded, a self call becomes REC(argument texts) and any other call stays symbolic.  The
resulting table is compared cell by cell with the table written down here from the
specification text (SameResponseShape, IsValidImplementationFieldType / AreTypesCompatible,
type equality, spread applicability).

Nothing is imported from the analysed tree; an unsupported construct in one of these
functions is an analysis error (exit 2), never a violation.
"""

from __future__ import annotations

import ast
from itertools import product
from typing import Any, Callable

from sa.loader import AnalysisError, Repo, call_name, unparse
from sa.report import Check

KINDS = ("Scalar", "Enum", "Object", "Interface", "Union", "InputObject", "List", "NonNull")
CLASS_OF = {
    "Scalar": "GraphQLScalarType",
    "Enum": "GraphQLEnumType",
    "Object": "GraphQLObjectType",
    "Interface": "GraphQLInterfaceType",
    "Union": "GraphQLUnionType",
    "InputObject": "GraphQLInputObjectType",
    "List": "GraphQLList",
    "NonNull": "GraphQLNonNull",
}
LEAF = {"Scalar", "Enum"}
ABSTRACT = {"Interface", "Union"}
COMPOSITE = {"Object", "Interface", "Union"}


class Sym:
    """A symbolic (undecided) result."""

    def __init__(self, text: str) -> None:
        self.text = text

    def __eq__(self, o: object) -> bool:
        return isinstance(o, Sym) and o.text == self.text

    def __hash__(self) -> int:
        return hash(self.text)

    def __repr__(self) -> str:
        return self.text


class _Return(Exception):
    def __init__(self, value: Any) -> None:
        self.value = value


class Folder:
    def __init__(self, fn: ast.FunctionDef, preds: dict[str, set[str]], kinds: dict[str, str], same: bool, pair: tuple[str, str]) -> None:
        self.fn = fn
        self.preds = preds
        self.kinds = kinds  # param -> kind
        self.same = same
        self.pair = pair
        self.env: dict[str, Any] = {}

    # -- expressions --------------------------------------------------------
    def ev(self, e: ast.AST) -> Any:
        if isinstance(e, ast.Constant):
            return e.value
        if isinstance(e, ast.Name):
            if e.id in self.env:
                return self.env[e.id]
            return Sym(e.id)
        if isinstance(e, ast.UnaryOp) and isinstance(e.op, ast.Not):
            v = self.ev(e.operand)
            if isinstance(v, Sym):
                return Sym(f"not {v.text}")
            return not v
        if isinstance(e, ast.BoolOp):
            is_and = isinstance(e.op, ast.And)
            rest: list[Sym] = []
            for sub in e.values:
                v = self.ev(sub)
                if isinstance(v, Sym):
                    rest.append(v)
                    continue
                if is_and and not v:
                    # a symbolic operand evaluated earlier cannot change a False
                    return False
                if not is_and and v:
                    if rest:
                        # `sym or True`: True either way
                        return True
                    return True
            if not rest:
                return is_and
            if len(rest) == 1:
                return rest[0]
            return Sym((" and " if is_and else " or ").join(r.text for r in rest))
        if isinstance(e, ast.IfExp):
            t = self.ev(e.test)
            if isinstance(t, Sym):
                a, b = self.ev(e.body), self.ev(e.orelse)
                if _same(a, b):
                    return a
                return Sym(f"({a!r} if {t.text} else {b!r})")
            return self.ev(e.body if t else e.orelse)
        if isinstance(e, ast.Compare) and len(e.ops) == 1:
            l, r = e.left, e.comparators[0]
            op = e.ops[0]
            if isinstance(l, ast.Name) and isinstance(r, ast.Name) and {l.id, r.id} == set(self.pair):
                if isinstance(op, (ast.Is, ast.Eq)):
                    return self.same
                if isinstance(op, (ast.IsNot, ast.NotEq)):
                    return not self.same
            return Sym(unparse(e))
        if isinstance(e, ast.Call):
            name = call_name(e)
            if name in self.preds and len(e.args) == 1 and isinstance(e.args[0], ast.Name) and e.args[0].id in self.kinds:
                return CLASS_OF[self.kinds[e.args[0].id]] in self.preds[name]
            if name == self.fn.name:
                return Sym("REC(" + ", ".join(unparse(a) for a in e.args) + ")")
            if name == "any" and e.args and isinstance(e.args[0], ast.GeneratorExp):
                return Sym("CALL(" + unparse(e) + ")")
            return Sym("CALL(" + unparse(e) + ")")
        if isinstance(e, ast.Attribute):
            return Sym(unparse(e))
        raise AnalysisError(f"KIND-TABLE: unsupported expression `{unparse(e)}` in {self.fn.name}")

    # -- statements ---------------------------------------------------------
    def run(self) -> Any:
        try:
            self.block(self.fn.body)
        except _Return as r:
            return r.value
        return None

    def block(self, body: list[ast.stmt]) -> None:
        for s in body:
            if isinstance(s, ast.Expr) and isinstance(s.value, ast.Constant):
                continue
            if isinstance(s, ast.Pass):
                continue
            if isinstance(s, ast.Return):
                raise _Return(self.ev(s.value) if s.value is not None else None)
            if isinstance(s, ast.Assign) and len(s.targets) == 1 and isinstance(s.targets[0], ast.Name):
                self.env[s.targets[0].id] = self.ev(s.value)
                continue
            if isinstance(s, ast.If):
                t = self.ev(s.test)
                if isinstance(t, Sym):
                    # fork on an undecided test: both arms must reach the same verdict
                    a = self._fork(s.body, body[body.index(s) + 1:])
                    b = self._fork(s.orelse, body[body.index(s) + 1:])
                    if _same(a, b):
                        raise _Return(a)
                    raise _Return(Sym(f"({a!r} if {t.text} else {b!r})"))
                self.block(s.body if t else s.orelse)
                continue
            if isinstance(s, ast.For) and len(s.body) == 1 and isinstance(s.body[0], ast.If) and not s.orelse and not s.body[0].orelse \
                    and len(s.body[0].body) == 1 and isinstance(s.body[0].body[0], ast.Return) \
                    and isinstance(s.body[0].body[0].value, ast.Constant) and s.body[0].body[0].value.value is True:
                # `for x in xs: if c(x): return True` followed by `return False`  ==  any(c(x) for x in xs)
                rest = body[body.index(s) + 1:]
                if len(rest) == 1 and isinstance(rest[0], ast.Return) and isinstance(rest[0].value, ast.Constant) and rest[0].value.value is False:
                    raise _Return(Sym(f"CALL(any({unparse(s.body[0].test)} for {unparse(s.target)} in {unparse(s.iter)}))"))
            raise AnalysisError(f"KIND-TABLE: unsupported statement `{unparse(s)[:60]}` in {self.fn.name}")

    def _fork(self, arm: list[ast.stmt], rest: list[ast.stmt]) -> Any:
        sub = Folder(self.fn, self.preds, self.kinds, self.same, self.pair)
        sub.env = dict(self.env)
        try:
            sub.block(arm)
            sub.block(rest)
        except _Return as r:
            return r.value
        return None


def _same(a: Any, b: Any) -> bool:
    return type(a) is type(b) and a == b


def fold_table(fn: ast.FunctionDef, a: str, b: str, preds: dict[str, set[str]], kinds_a=KINDS, kinds_b=KINDS) -> dict[tuple[str, str, bool], Any]:
    table = {}
    for ka, kb in product(kinds_a, kinds_b):
        for same in ((True, False) if ka == kb else (False,)):
            table[(ka, kb, same)] = Folder(fn, preds, {a: ka, b: kb}, same, (a, b)).run()
    return table


# -- the specification tables ---------------------------------------------------


def spec_do_types_conflict(a: str, b: str) -> Callable[[str, str, bool], Any]:
    """SameResponseShape, steps 3-5 (wrappers must match, leaves must be the same type)."""

    def f(ka: str, kb: str, same: bool) -> Any:
        rec = Sym(f"REC({a}.of_type, {b}.of_type)")
        if ka == "List" or kb == "List":
            return rec if ka == kb else True
        if ka == "NonNull" or kb == "NonNull":
            return rec if ka == kb else True
        if ka in LEAF or kb in LEAF:
            return not same
        return False

    return f


def spec_is_type_sub_type_of(sub: str, sup: str, schema: str = "schema") -> Callable[[str, str, bool], Any]:
    """IsValidImplementationFieldType / variable-usage covariance."""

    def f(ksub: str, ksup: str, same: bool) -> Any:
        if same:
            return True
        if ksup == "NonNull":
            return Sym(f"REC({schema}, {sub}.of_type, {sup}.of_type)") if ksub == "NonNull" else False
        if ksub == "NonNull":
            return Sym(f"REC({schema}, {sub}.of_type, {sup})")
        if ksup == "List":
            return Sym(f"REC({schema}, {sub}.of_type, {sup}.of_type)") if ksub == "List" else False
        if ksub == "List":
            return False
        if ksup in ABSTRACT and ksub in ("Interface", "Object"):
            return Sym(f"CALL({schema}.is_sub_type({sup}, {sub}))")
        return False

    return f


def spec_is_equal_type(a: str, b: str) -> Callable[[str, str, bool], Any]:
    def f(ka: str, kb: str, same: bool) -> Any:
        if same:
            return True
        if ka == kb and ka in ("NonNull", "List"):
            return Sym(f"REC({a}.of_type, {b}.of_type)")
        return False

    return f


def spec_do_types_overlap(a: str, b: str, schema: str = "schema") -> Callable[[str, str, bool], Any]:
    """Spread applicability: the sets of possible object types intersect."""

    def f(ka: str, kb: str, same: bool) -> Any:
        if same:
            return True
        if ka in ABSTRACT and kb in ABSTRACT:

            def both_abstract(got: Any) -> bool:
                """CALL(any(... possible types of one tested against the other ...))"""
                t = repr(got)
                return isinstance(got, Sym) and t.startswith("CALL(any(") and "get_possible_types" in t and "is_sub_type" in t

            return both_abstract
        if ka in ABSTRACT:
            return Sym(f"CALL({schema}.is_sub_type({a}, {b}))")
        if kb in ABSTRACT:
            return Sym(f"CALL({schema}.is_sub_type({b}, {a}))")
        return False

    return f


def kind_table(check: Check, repo: Repo, fn: ast.FunctionDef, a: str, b: str, spec: Callable[[str, str, bool], Any], preds: dict[str, set[str]],
               kinds=KINDS, rule: str = "KIND-TABLE", what: str = "") -> int:
    check.rule(
        rule,
        "the pure kind-dispatch functions are folded (abstract walk of their if/return structure over "
        "8 kinds x 8 kinds x {same object, distinct}) into decision tables and compared cell by cell with "
        "the tables the specification prescribes: wrappers recurse on both unwrapped types, a wrapper "
        "against a non-wrapper decides immediately, leaves compare by identity, named types go to the "
        "schema's subtype relation only for the kinds that can be subtypes",
    )
    table = fold_table(fn, a, b, preds, kinds, kinds)
    bad = []
    for cell, got in sorted(table.items()):
        want = spec(*cell)
        if callable(want):
            if not want(got):
                bad.append((cell, got, Sym(want.__doc__ or "predicate")))
        elif not _same(got, want):
            bad.append((cell, got, want))
    check.ob(
        rule,
        fn,
        f"{fn.name}: {len(table)} cells {what}",
        not bad,
        f"all {len(table)} cells equal the specification table"
        if not bad
        else "; ".join(f"({ka}, {kb}, {'same' if same else 'distinct'}): code gives {got!r}, specification {want!r}" for (ka, kb, same), got, want in bad[:4])
        + (f" (+{len(bad) - 4} more cells)" if len(bad) > 4 else ""),
    )
    return len(table)
