"""C20 (+ shared DISPATCH-EXH helpers): schema validation reports, never crashes."""

from __future__ import annotations

import ast

from sa.cfg import CFG, no_exc
from sa.guards import FactFlow
from sa.loader import (
    AnalysisError, FuncDef, Repo, ancestors, call_name, enclosing_function, fixture, last_attr, module_of,
    parent, qualname_of, unparse, walk_body,
)  # fmt: skip
from sa.report import Check, node_text
from sa.resolve import CallGraph, ClassIndex
from rules.bounds import covered_by_try

TYPE_ERR_CATCHERS = {"TypeError", "Exception", "BaseException"}


# -- type predicates ---------------------------------------------------------------------


def predicate_classes(repo: Repo) -> dict[str, set[str]]:
    """is_x_type -> set of GraphQL class names accepted (read from type/definition.py)."""
    mod = repo.mod("type.definition")
    out: dict[str, set[str]] = {}
    for fn in mod.functions():
        if not (fn.name.startswith("is_") and parent(fn) is mod.tree):
            continue
        rets = [n for n in walk_body(fn) if isinstance(n, ast.Return)]
        if len(rets) != 1 or rets[0].value is None:
            continue
        v = rets[0].value
        classes: set[str] = set()
        ok = True
        for c in ast.walk(v):
            if isinstance(c, ast.Call) and call_name(c) == "isinstance" and len(c.args) == 2:
                t = c.args[1]
                names = [t] if isinstance(t, ast.Name) else list(getattr(t, "elts", []))
                for nm in names:
                    if isinstance(nm, ast.Name):
                        classes.add(nm.id)
                    else:
                        ok = False
        if classes and ok:
            out[fn.name] = classes
    # resolve tuples of types such as graphql_leaf_types / input types defined via module constants
    for name, classes in list(out.items()):
        resolved: set[str] = set()
        for c in classes:
            expr = mod.toplevel_assign(c)
            if expr is not None and isinstance(expr, ast.Tuple):
                resolved |= {e.id for e in expr.elts if isinstance(e, ast.Name)}
            else:
                resolved.add(c)
        out[name] = resolved
    if "is_object_type" not in out or "is_leaf_type" not in out:
        raise AnalysisError(f"type predicates not recognised: {sorted(out)}")
    # expand base classes to their concrete leaves (GraphQLWrappingType -> List, NonNull)
    classes = ClassIndex(repo)
    for name, cs in list(out.items()):
        expanded: set[str] = set()
        for c in cs:
            ci = classes.by_full.get(f"{mod.name}.{c}")
            subs = [s.name for s in classes.subclasses(ci)] if ci is not None else []
            leaves = [s for s in subs if not any(
                x is not classes.by_full.get(f"{mod.name}.{s}") and classes.by_full.get(f"{mod.name}.{s}") in classes.mro(x)
                for x in classes.by_full.values() if x.mod is mod)]
            expanded |= set(leaves) if leaves else {c}
        out[name] = expanded
    return out


NAMED_TYPES = {
    "GraphQLScalarType", "GraphQLObjectType", "GraphQLInterfaceType", "GraphQLUnionType",
    "GraphQLEnumType", "GraphQLInputObjectType",
}  # fmt: skip


def dispatch_chain(fn: ast.AST, subject: str) -> list[tuple[str, ast.If]]:
    """Predicates `is_x(subject)` tested by if/elif chains in fn (top-level tests only)."""
    out = []
    for n in walk_body(fn):
        if isinstance(n, ast.If):
            for c in ast.walk(n.test):
                if isinstance(c, ast.Call) and call_name(c).startswith("is_") and c.args and unparse(c.args[0]) == subject:
                    out.append((call_name(c), n))
    return out


def dispatch_exhaustive(check: Check, rule: str, fn: ast.AST, subject: str, family: set[str], preds: dict[str, set[str]],
                        exempt: dict[str, str], what: str, also_isinstance: bool = False) -> None:
    covered: set[str] = set()
    for p, _node in dispatch_chain(fn, subject):
        cs = preds.get(p, set())
        if cs and family <= cs:
            continue  # a predicate accepting the whole family does not discriminate (e.g. is_named_type)
        covered |= cs
    if also_isinstance:
        for n in walk_body(fn):
            if isinstance(n, ast.Call) and call_name(n) == "isinstance" and len(n.args) == 2 and unparse(n.args[0]) == subject:
                covered |= {x.id for x in ast.walk(n.args[1]) if isinstance(x, ast.Name)}
    for cls in sorted(family):
        if cls in exempt:
            check.ob(rule, fn, f"{what}: {cls}", True, f"exempt: {exempt[cls]}", nontrivial=False)
            continue
        ok = cls in covered
        check.ob(rule, fn, f"{what}: {cls}", ok,
                 "has a handling arm" if ok else f"no arm of the dispatch over `{subject}` accepts {cls}")


# -- KIND-CONTRADICTION ---------------------------------------------------------------------


def _params(fn: ast.AST) -> list[str]:
    a = fn.args  # type: ignore[attr-defined]
    return [x.arg for x in a.posonlyargs + a.args]


def _attr_path(e: ast.AST) -> tuple[str, tuple[str, ...]] | None:
    attrs: list[str] = []
    while isinstance(e, ast.Attribute):
        attrs.append(e.attr)
        e = e.value
    if isinstance(e, ast.Name):
        return e.id, tuple(reversed(attrs))
    return None


def requirement_summaries(repo: Repo, cg: CallGraph, roots: list[ast.AST], depth: int = 6) -> dict[tuple[ast.AST, str, tuple[str, ...]], str]:
    """(function, param, attr path) -> why that value must be an input type."""
    cone = cg.reachable(roots, depth)
    req: dict[tuple[ast.AST, str, tuple[str, ...]], str] = {}
    flows: dict[ast.AST, FactFlow] = {}

    def guarded(fn: ast.AST, call: ast.Call, subject: str) -> bool:
        if covered_by_try(call, TYPE_ERR_CATCHERS) is not None:
            return True
        if fn not in flows:
            flows[fn] = FactFlow(CFG(fn))
        for f in flows[fn].facts_at(call):
            if f.kind == "cond" and f.pol and f.text in (f"is_input_type({subject})", f"is_leaf_type({subject})"):
                return True
        return False

    # base: assert_leaf_type(P) reached after the non-null / list / input-object arms
    for fn in cone:
        if not isinstance(fn, FuncDef):
            continue
        params = _params(fn)
        for n in walk_body(fn):
            if isinstance(n, ast.Call) and call_name(n) in ("assert_leaf_type", "assert_input_type") and n.args:
                ap = _attr_path(n.args[0])
                if ap and ap[0] in params and not guarded(fn, n, unparse(n.args[0])):
                    req[(fn, ap[0], ap[1])] = f"{fn.name} calls {call_name(n)}({unparse(n.args[0])}) unguarded"
    changed = True
    rounds = 0
    while changed and rounds < depth:
        changed = False
        rounds += 1
        for fn in cone:
            if not isinstance(fn, FuncDef):
                continue
            params = _params(fn)
            for call, target in cg.callees(fn):
                if not isinstance(target, FuncDef):
                    continue
                tparams = _params(target)
                if tparams and tparams[0] in ("self", "cls") and isinstance(call.func, ast.Attribute):
                    tparams = tparams[1:]
                bound: dict[str, ast.AST] = {}
                for i, a in enumerate(call.args):
                    if i < len(tparams) and not isinstance(a, ast.Starred):
                        bound[tparams[i]] = a
                for k in call.keywords:
                    if k.arg:
                        bound[k.arg] = k.value
                for (t, p, path), why in list(req.items()):
                    if t is not target or p not in bound:
                        continue
                    ap = _attr_path(bound[p])
                    if not ap or ap[0] not in params:
                        continue
                    full = ap[1] + path
                    if len(full) > 2 or "of_type" in full:
                        continue
                    key = (fn, ap[0], full)
                    if key in req:
                        continue
                    subject = ".".join((ap[0], *full))
                    if guarded(fn, call, subject):
                        continue
                    req[key] = f"{fn.name} passes {subject} to {target.name}: {why}"
                    changed = True
    return req


def kind_contradiction(check: Check, repo: Repo, rule: str = "KIND-CONTRADICTION") -> None:
    check.rule(
        rule,
        "a value that failed an is_input_type check on a path that continues (report-and-fall-through) "
        "must not reach a call whose callee - by derived requirement summaries (unguarded "
        "assert_leaf_type after the non-null/list/input-object arms, propagated over the call graph) - "
        "requires an input type for it",
    )
    classes = ClassIndex(repo)
    cg = CallGraph(repo, classes)
    ctx = classes.get("type.validate", "SchemaValidationContext")
    methods = [m for m in ctx.methods().values()]
    req = requirement_summaries(repo, cg, methods)
    check.note(requirement_summaries=sorted({f"{f.name}({p}{''.join('.' + a for a in path)})" for (f, p, path) in req}))  # type: ignore[attr-defined]
    for fn in methods:
        cfg = CFG(fn)
        tests = [n for n in cfg.nodes if n.kind == "test" and isinstance(n.ast, ast.Call)
                 and call_name(n.ast) == "is_input_type" and n.ast.args]
        for tnode in tests:
            subject = unparse(tnode.ast.args[0])
            ap0 = _attr_path(tnode.ast.args[0])
            if ap0 is None:
                continue
            root = ap0[0]
            starts = [m for m, l in cfg.succ[tnode] if l and l[0] == "cond" and l[2] is False]
            rebinding = lambda m: m.kind == "for" and root in {x.id for x in ast.walk(m.ast.target) if isinstance(x, ast.Name)}  # noqa: E731
            ttext = unparse(tnode.ast)

            def consistent(a_, b_, label, ttext=ttext):
                # we are on the path where the check failed: a later true outcome of the same test is infeasible
                if not no_exc(a_, b_, label):
                    return False
                return not (label and label[0] == "cond" and label[2] is True and unparse(label[1]) == ttext)

            reach = cfg.reachable(starts, follow=consistent, avoid=rebinding)
            hits = []
            n_calls = 0
            for call, target in cg.callees(fn):
                if not isinstance(target, FuncDef):
                    continue
                if not any(c in reach for c in cfg.node_for_expr(call)):
                    continue
                tparams = _params(target)
                if tparams and tparams[0] == "self":
                    tparams = tparams[1:]
                for i, a in enumerate(call.args):
                    if i >= len(tparams):
                        break
                    ap = _attr_path(a)
                    if ap is None or ap[0] != root:
                        continue
                    n_calls += 1
                    for (t, p, path), why in req.items():
                        if t is target and p == tparams[i] and ".".join((ap[0], *ap[1], *path)) == subject:
                            hits.append((call, why))
            ok = not hits
            check.ob(
                rule, tnode.ast, f"failed {unparse(tnode.ast)} continues in {qualname_of(tnode.ast)}", ok,
                f"{n_calls} later call(s) receive `{root}`; none requires `{subject}` to be an input type" if ok else
                f"control continues after the failed check to `{unparse(hits[0][0])[:60]}` (line {hits[0][0].lineno}): {hits[0][1]}",
            )
    check.floor(rule, 3, "report-and-continue is_input_type checks in SchemaValidationContext")


def validate_raises(check: Check, repo: Repo, rule: str = "VALIDATE-RAISES") -> None:
    check.rule(
        rule,
        "from validate_schema the only explicit raise not enclosed by a covering handler is "
        "assert_schema's TypeError; functions that raise (uncoerce_default_value) are called only inside "
        "try/except Exception",
    )
    classes = ClassIndex(repo)
    cg = CallGraph(repo, classes)
    root = repo.func("type.validate", "validate_schema")
    cone = cg.reachable([root], 8)
    vmod = repo.mod("type.validate")
    for fn, chain in cone.items():
        if not isinstance(fn, FuncDef) or module_of(fn) is not vmod:
            continue
        raises = [n for n in walk_body(fn) if isinstance(n, ast.Raise)]
        for r in raises:
            if covered_by_try(r, {"Exception", "BaseException", "TypeError"}):
                check.ob(rule, r, f"raise in {fn.name}", True, "caught locally")
                continue
            # every call site of fn in the cone must be covered (recursion excepted)
            sites = [(c, g) for g in cone if isinstance(g, FuncDef) for c, t in cg.callees(g) if t is fn and g is not fn]
            ok = bool(sites) and all(covered_by_try(c, {"Exception", "BaseException"}) is not None for c, _ in sites)
            check.ob(rule, r, f"raise in {fn.name}: {node_text(r, 60)}", ok,
                     f"all {len(sites)} call site(s) are inside try/except Exception" if ok else
                     f"escapes validate_schema via {' -> '.join(getattr(f, 'name', '?') for f in chain)}")
    # uncoerce_default_value call sites
    un = repo.func("type.validate", "uncoerce_default_value")
    for g in vmod.functions():
        for c, t in cg.callees(g):
            if t is un and g is not un:
                ok = covered_by_try(c, {"Exception", "BaseException"}) is not None
                check.ob(rule, c, f"uncoerce_default_value(...) in {qualname_of(c)}", ok,
                         "inside try/except Exception" if ok else "may raise TypeError out of validate_schema")


def schema_errors_first(check: Check, repo: Repo, rule: str = "SCHEMA-ERRORS-FIRST") -> None:
    check.rule(
        rule,
        "in graphql_impl every path to a parse / validate / execute call passes the validate_schema "
        "test, and its non-empty outcome returns ExecutionResult(data=None, errors=<those errors>)",
    )
    fn = repo.func("graphql.graphql", "graphql_impl")
    cfg = CFG(fn)
    # the outcome may be named first: `errs = validate_schema(schema)` ... `if errs:`
    held = {t.id for s_ in walk_body(fn) if isinstance(s_, ast.Assign) and isinstance(s_.value, ast.Call) and call_name(s_.value) == "validate_schema"
            for t in s_.targets if isinstance(t, ast.Name)}
    tests = [n for n in cfg.nodes if n.kind == "test" and (any(isinstance(c, ast.Call) and call_name(c) == "validate_schema" for c in ast.walk(n.ast))
                                                            or (isinstance(n.ast, ast.Name) and n.ast.id in held))]
    ok = len(tests) == 1
    detail = f"{len(tests)} validate_schema tests"
    if ok:
        t = tests[0]
        work = lambda n: n.ast is not None and n.kind not in ("def",) and any(  # noqa: E731
            isinstance(c, ast.Call) and last_attr(c) in ("parse", "execute", "validate") for c in ast.walk(n.ast)) and n is not t
        defs_or_work = lambda n: work(n) or n.kind == "def"  # noqa: E731
        bad = cfg.find_path(cfg.entry, defs_or_work, avoid=lambda n: n is t)
        true_succ = [m for m, l in cfg.succ[t] if l and l[0] == "cond" and l[2] is True]
        ret_ok = all(m.kind == "return" and "ExecutionResult(data=None, errors=schema_validation_errors)" in unparse(m.ast) for m in true_succ) and bool(true_succ)
        ok = bad is None and ret_ok
        detail = "dominates all later work; true edge returns the errors" if ok else f"path avoiding the test: {cfg.describe_path(bad) if bad else '-'}; return ok: {ret_ok}"
    check.ob(rule, fn, "schema validation errors are returned before parsing/executing", ok, detail)


def kind_attr(check: Check, repo: Repo, rule: str = "KIND-ATTR") -> None:
    """After a kind check `is_K(x)` has *failed* for a name x, attributes of x are not read
    unless a positive kind fact for x dominates the read (the repository's own idiom:
    `getattr(x, "ast_node", None)`, `x.ast_node if is_named_type(x) else None`)."""
    check.rule(
        rule,
        "in SchemaValidationContext, on every path from the false edge of a kind check is_K(x) "
        "(x a local name, not rebound) an attribute read x.attr is dominated by a positive kind "
        "fact about x (is_P(x) true / isinstance) - a value that failed the check may be any object, "
        "e.g. a wrapping type without ast_node",
    )
    classes = ClassIndex(repo)
    ctx = classes.get("type.validate", "SchemaValidationContext")
    kind_preds = set(predicate_classes(repo)) | {"is_directive", "is_schema"}
    n = 0
    for fn in ctx.methods().values():
        cfg = CFG(fn)
        flow: FactFlow | None = None
        tests = [t for t in cfg.nodes if t.kind == "test" and isinstance(t.ast, ast.Call) and call_name(t.ast) in kind_preds
                 and len(t.ast.args) == 1 and isinstance(t.ast.args[0], ast.Name)]
        for t in tests:
            x = t.ast.args[0].id
            starts = [m for m, l in cfg.succ[t] if l and l[0] == "cond" and l[2] is False]
            rebinding = lambda m: m.ast is not None and m.kind in ("for", "stmt") and any(  # noqa: E731
                isinstance(a, ast.Name) and a.id == x and isinstance(a.ctx, ast.Store) for a in ast.walk(m.ast))
            reach = cfg.reachable(starts, follow=no_exc, avoid=rebinding)
            reads = []
            for m in reach:
                if m.ast is None or m.kind in ("join", "finally", "def"):
                    continue
                scope = m.ast
                if isinstance(scope, (ast.For, ast.AsyncFor)):
                    scope = scope.iter
                elif isinstance(scope, (ast.With, ast.AsyncWith)):
                    continue
                for a in ast.walk(scope):
                    if isinstance(a, ast.Attribute) and isinstance(a.ctx, ast.Load) and isinstance(a.value, ast.Name) and a.value.id == x:
                        reads.append(a)
            bad = []
            for a in reads:
                flow = flow or FactFlow(CFG(fn))
                facts = flow.facts_at(a)
                guarded = any(
                    f.kind == "cond" and f.pol and isinstance(f.expr, ast.Call) and call_name(f.expr) in ("isinstance",) + tuple(
                        p for p in ("is_named_type", "is_object_type", "is_interface_type", "is_union_type", "is_enum_type",
                                    "is_input_object_type", "is_scalar_type", "is_directive", "is_composite_type",
                                    "is_abstract_type", "is_leaf_type"))
                    and f.expr.args and unparse(f.expr.args[0]) == x
                    for f in facts
                )
                # a different, positive test of the same predicate family that dominates is fine too;
                # the failed test itself gives a negative fact only
                if not guarded:
                    bad.append(a)
            n += 1
            check.ob(rule, t.ast, f"failed {unparse(t.ast)} in {qualname_of(t.ast)}", not bad,
                     f"{len(reads)} attribute read(s) of `{x}` after the failed check, all guarded" if not bad else
                     f"`{unparse(bad[0])}` (line {bad[0].lineno}) is read although `{x}` failed {unparse(t.ast)} and may be any object")
    check.floor(rule, 8, "kind checks on local names in SchemaValidationContext")


def skip_reports(check: Check, repo: Repo, rule: str = "SKIP-REPORTS") -> None:
    check.rule(
        rule,
        "schema validation never skips an element silently: every `continue` in a loop of "
        "SchemaValidationContext is preceded, in its own block, by a report_error call",
    )
    classes = ClassIndex(repo)
    ctx = classes.get("type.validate", "SchemaValidationContext")
    n = 0
    for fn in ctx.methods().values():
        for c in walk_body(fn):
            if isinstance(c, ast.Continue):
                block = parent(c)
                body = getattr(block, "body", [])
                if c not in body:
                    body = getattr(block, "orelse", [])
                idx = body.index(c) if c in body else 0
                ok = any(isinstance(x, ast.Call) and last_attr(x) == "report_error" for s in body[:idx] for x in ast.walk(s))
                why = "follows a report_error in the same block"
                if not ok and isinstance(block, ast.If) and c in block.body:
                    # `if not is_X_type(entry): continue` is not silent when the same kind test guards a report in
                    # another method of the validator (the entry is reported where its owner is validated)
                    preds = {call_name(x) for x in ast.walk(block.test) if isinstance(x, ast.Call) and call_name(x).startswith("is_") and call_name(x).endswith("_type")}
                    for other in ctx.methods().values():
                        if other is fn:
                            continue
                        for i2 in walk_body(other):
                            if isinstance(i2, ast.If) and preds & {call_name(x) for x in ast.walk(i2.test) if isinstance(x, ast.Call)} and any(
                                    isinstance(x, ast.Call) and last_attr(x) == "report_error" for s in i2.body for x in ast.walk(s)):
                                ok, why = True, f"the same kind test ({sorted(preds)[0]}) is reported in {other.name}"
                if not ok and any(isinstance(x, ast.Call) and isinstance(x.func, ast.Attribute) and x.func.attr in ("append", "add", "setdefault", "update", "extend")
                                  for s_ in body[:idx] for x in ast.walk(s_)):
                    # the guard-clause spelling of `if valid: record(element) else: report`: the element is handled, not skipped
                    ok, why = True, "the element is recorded before the loop moves on"
                if not ok and isinstance(block, ast.If) and c in block.body and idx == 0:
                    t_ = block.test
                    absent = (isinstance(t_, ast.UnaryOp) and isinstance(t_.op, ast.Not) and isinstance(t_.operand, ast.Name)) or (
                        isinstance(t_, ast.Compare) and len(t_.ops) == 1 and isinstance(t_.ops[0], ast.Is) and isinstance(t_.left, ast.Name)
                        and isinstance(t_.comparators[0], ast.Constant) and t_.comparators[0].value is None)
                    if absent:
                        # `if not x: continue` == `if x: <rest of the body>`: there is no element to validate
                        ok, why = True, f"`{unparse(t_)}`: nothing to validate in this iteration"
                check.ob(rule, c, f"continue in {fn.name} (line +{c.lineno - fn.lineno})", ok,
                         why if ok else
                         "skips the element without reporting anything: a violation on it is never detected")
                n += 1
    check.floor(rule, 3, "continue statements in SchemaValidationContext")


def wrapper_pairing(check: Check, repo: Repo, funcs: list[tuple[str, str]], rule: str = "WRAPPER-PAIRING") -> None:
    check.rule(
        rule,
        "a structural type comparison that recurses on `.of_type` of both operands does so only where "
        "must-facts pin both operands to the same single wrapper class (is_non_null_type / is_list_type "
        "on each); a predicate accepting several wrapper kinds would equate [T] with T!",
    )
    preds = predicate_classes(repo)
    single = {p for p, cs in preds.items() if len(cs) == 1}
    for mn, q in funcs:
        fn = repo.func(mn, q)
        flow = FactFlow(CFG(fn))
        n = 0
        for c in walk_body(fn):
            if isinstance(c, ast.Call) and call_name(c) == fn.name:
                unwrapped = [a.value for a in c.args if isinstance(a, ast.Attribute) and a.attr == "of_type"]
                if len(unwrapped) < 2:
                    continue
                n += 1
                facts = flow.facts_at(c)
                pinned = []
                for u in unwrapped:
                    ps = {call_name(f.expr) for f in facts if f.kind == "cond" and f.pol and isinstance(f.expr, ast.Call)
                          and f.expr.args and unparse(f.expr.args[0]) == unparse(u) and call_name(f.expr) in single}
                    pinned.append(ps)
                common = set.intersection(*pinned) if pinned else set()
                ok = bool(common)
                check.ob(rule, c, f"{q}: {node_text(c, 70)}", ok,
                         f"both operands pinned by {sorted(common)}" if ok else
                         f"operands {[unparse(u) for u in unwrapped]} are not pinned to one wrapper class by a common single-class predicate "
                         f"(facts: {[sorted(p) for p in pinned]})")
        if n == 0:
            # no level-by-level descent: a comparison that strips all wrappers at once loses the inner ones
            strips = [c for c in walk_body(fn) if isinstance(c, ast.Call) and call_name(c).split(".")[-1] in ("get_named_type", "get_nullable_type")]
            if not strips:
                raise AnalysisError(f"{q}: no double-unwrapping recursion found")
            check.ob(rule, strips[-1], f"{q}: wrappers are compared level by level", False,
                     f"the function never recurses on `.of_type` of both operands; it strips wrappers with `{unparse(strips[-1])[:50]}` instead: "
                     "a difference in an inner wrapper ([Int!] against [Int], [[Int]] against [Int]) is not compared")


# -- the validation result cache of a schema ---------------------------------------------------

CACHE_ATTR = "_validation_errors"
CACHE_TOUCHERS = {
    ("graphql.type.schema", "GraphQLSchema.__init__"): "initialises the cache from the assume_valid argument",
    ("graphql.type.schema", "GraphQLSchema.validation_errors"): "read-only property",
    ("graphql.type.validate", "validate_schema"): "the only consumer and the only writer after construction",
}


def validation_cache(check: Check, repo: Repo, rule: str = "VALIDATION-CACHE") -> None:
    from sa.loader import module_of

    check.rule(
        rule,
        "GraphQLSchema._validation_errors is the typestate 'already validated': (1) it is touched only by "
        "GraphQLSchema.__init__, the validation_errors property and validate_schema - no other code derives "
        "validity from it (a copy made through to_kwargs of a validated schema must be validated again); "
        "(2) __init__ sets it from the assume_valid argument alone; (3) validate_schema publishes it only "
        "after the last validate_* call on the context - no validation call is reachable after the store - "
        "so a schema observed as 'validated' has been validated completely",
    )
    n = 0
    for mod in repo.modules.values():
        for a in ast.walk(mod.tree):
            if isinstance(a, ast.Attribute) and a.attr == CACHE_ATTR:
                key = (mod.name, qualname_of(a))
                if qualname_of(a) == "GraphQLSchema":  # class-level annotation
                    continue
                ok = key in CACHE_TOUCHERS
                n += 1
                check.ob(rule, a, f"{qualname_of(a)}: {'store to' if isinstance(a.ctx, ast.Store) else 'read of'} {unparse(a)}", ok,
                         CACHE_TOUCHERS.get(key, "") if ok else
                         f"`{CACHE_ATTR}` is {'written' if isinstance(a.ctx, ast.Store) else 'read'} outside __init__ / validate_schema: "
                         "validity is derived from (or forged into) the cache of another schema object")
    init = repo.func("type.schema", "GraphQLSchema.__init__")
    stores = [s for s in walk_body(init) if isinstance(s, ast.Assign) and any(isinstance(t, ast.Attribute) and t.attr == CACHE_ATTR for t in s.targets)]
    names = {x.id for s in stores for x in ast.walk(s.value) if isinstance(x, ast.Name)}
    ok = len(stores) == 1 and names == {"assume_valid"} and isinstance(stores[0].value, ast.IfExp) \
        and isinstance(stores[0].value.orelse, ast.Constant) and stores[0].value.orelse.value is None
    check.ob(rule, stores[0] if stores else init, "__init__: cache initialised from assume_valid only", ok,
             "[] if assume_valid else None" if ok else f"initial value depends on {sorted(names)}")
    # publish after complete
    vs = repo.func("type.validate", "validate_schema")
    cfg = CFG(vs)
    wr = [s for s in walk_body(vs) if isinstance(s, ast.Assign) and any(isinstance(t, ast.Attribute) and t.attr == CACHE_ATTR for t in s.targets)]
    if not wr:
        check.ob(rule, vs, "validate_schema stores the result", False, "the result is never cached: every request re-validates (not a violation of C20, but the anchor is gone)")
        return
    ctx_names = {
        t.id for s in walk_body(vs) if isinstance(s, ast.Assign) and isinstance(s.value, ast.Call) and call_name(s.value) == "SchemaValidationContext"
        for t in s.targets if isinstance(t, ast.Name)
    }
    work = [
        c for c in walk_body(vs)
        if isinstance(c, ast.Call) and isinstance(c.func, ast.Attribute) and isinstance(c.func.value, ast.Name) and c.func.value.id in ctx_names
    ]
    if len(work) < 3:
        raise AnalysisError("validate_schema: validation calls on the context not found")
    for w in wr:
        starts = cfg.nodes_of(w)
        reach = cfg.reachable(starts, follow=no_exc)
        late = [c for c in work if any(nd in reach and nd not in starts for nd in cfg.node_for_expr(c))]
        check.ob(rule, w, f"validate_schema: `{node_text(w, 60)}` after the last validation call", not late,
                 f"all {len(work)} context.validate_* calls precede the store" if not late else
                 f"`{unparse(late[0])}` runs after the cache was published: until it returns, the schema already counts as validated with a partial error list")
    check.floor(rule, 4, "accesses to the validation cache")


# -- a named-kind predicate on a type that may still be wrapped --------------------------------------------

NAMED_KIND_PREDICATES = {
    "is_object_type", "is_interface_type", "is_union_type", "is_enum_type", "is_scalar_type", "is_input_object_type",
    "is_leaf_type", "is_composite_type", "is_abstract_type",
}
UNWRAPPERS = {"get_named_type", "get_nullable_type", "assert_named_type", "assert_nullable_type", "assert_leaf_type",
              "assert_object_type", "assert_input_object_type", "assert_composite_type"}
WRAPPER_TESTS = {"is_non_null_type", "is_list_type", "is_wrapping_type", "is_named_type", "is_nullable_type"}
WRAPPED_EXEMPT = {
    ("validation/rules/fields_on_correct_type.py", "get_suggested_type_names", "type_"):
        "called with context.get_parent_type(), which is the named composite type of the enclosing selection set",
    ("validation/rules/fields_on_correct_type.py", "get_suggested_field_names", "type_"):
        "called with context.get_parent_type() (named composite type)",
    ("validation/rules/possible_fragment_spreads.py", "PossibleFragmentSpreadsRule.enter_inline_fragment", "frag_type"):
        "context.get_type() inside an inline fragment is the type of a NamedTypeNode type condition",
}


def wrapped_kind_test(check: Check, repo: Repo, mods: list, rule: str = "WRAPPED-KIND-TEST") -> None:
    from rules.write_effect import top_heads
    from sa.mtypes import MTypes

    check.rule(
        rule,
        "a predicate for a *named* kind (is_input_object_type, is_leaf_type ...) applied to a value whose "
        "static type still admits GraphQLNonNull is preceded, in the same function and on the same variable, by "
        "a wrapper test (is_non_null_type / is_list_type / ...) or the variable was produced by an unwrapping "
        "helper (get_named_type, get_nullable_type, assert_*): `arg: OneOfInput!` is a OneOf position although "
        "is_input_object_type(<OneOfInput!>) is False - a rule that tests the wrapped type silently skips it",
    )
    mt = MTypes.get(repo)
    n = 0
    n_list = [0]
    for mod in mods:
        for fn in mod.functions():
            for c in walk_body(fn):
                if not (isinstance(c, ast.Call) and call_name(c) in NAMED_KIND_PREDICATES and len(c.args) == 1 and isinstance(c.args[0], ast.Name)):
                    continue
                var = c.args[0].id
                ty = mt.type_of(c.args[0])
                heads = top_heads(ty) if ty else set()
                if not any(h.endswith("GraphQLNonNull") for h in heads):
                    # list clause: the value lost only its non-null wrapper (get_nullable_type) and may still be `[T]`; a single
                    # value written in a list position is coerced as a one-element list, so the position still is a T position
                    prod = [x for x in walk_body(fn) if isinstance(x, ast.Call) and x.lineno <= c.lineno and call_name(x) in ("get_nullable_type", "assert_nullable_type")
                            and isinstance(parent(x), ast.Assign) and any(unparse(t) == var for t in parent(x).targets)]
                    if prod and any(h.endswith("GraphQLList") for h in heads):
                        n_list[0] += 1
                        tested = [x for x in walk_body(fn) if isinstance(x, ast.Call) and x.lineno <= c.lineno and x.args and unparse(x.args[0]) == var
                                  and call_name(x) in ("is_list_type", "is_wrapping_type", "is_named_type")]
                        check.ob(rule, c, f"{qualname_of(c)}: {unparse(c)} (list wrapper)", bool(tested),
                                 f"`{var}` was tested for the list wrapper before: {unparse(tested[0])}" if tested else
                                 f"`{var}` had only its non-null wrapper removed ({unparse(prod[0])}) and may still be a GraphQLList: a single value "
                                 "written where a list is expected is coerced as one item, so `arg: [OneOfInput!]` given `{a: $v}` is a OneOf "
                                 "position that this test skips - use get_named_type or test is_list_type first")
                    continue
                n += 1
                earlier = [
                    x for x in walk_body(fn)
                    if isinstance(x, ast.Call) and x.lineno <= c.lineno and x is not c and (
                        (call_name(x) in WRAPPER_TESTS and x.args and unparse(x.args[0]) == var)
                        or (call_name(x) in UNWRAPPERS and isinstance(parent(x), ast.Assign) and any(unparse(t) == var for t in parent(x).targets)))
                ]
                key = next((k for k in WRAPPED_EXEMPT if mod.rel.endswith(k[0]) and qualname_of(c) == k[1] and var == k[2]), None)
                ok = bool(earlier) or key is not None
                check.ob(rule, c, f"{qualname_of(c)}: {unparse(c)}", ok,
                         (f"`{var}` was tested/unwrapped before: {unparse(earlier[0])}" if earlier else "invariant: " + WRAPPED_EXEMPT[key]) if ok else
                         f"`{var}` may be a GraphQLNonNull wrapper here and nothing in this function unwraps or tests it first")
    if n < 10:
        raise AnalysisError(f"WRAPPED-KIND-TEST: only {n} sites found")


# --------------------------------------------------------------------------- #
# NONNULL-INVARIANT: a test that looks through the wrappers decides the same for T and T!

_KINDS = {
    "is_scalar_type": {"scalar"}, "is_enum_type": {"enum"}, "is_object_type": {"object"}, "is_interface_type": {"interface"},
    "is_union_type": {"union"}, "is_input_object_type": {"input"}, "is_leaf_type": {"scalar", "enum"},
    "is_composite_type": {"object", "interface", "union"}, "is_abstract_type": {"interface", "union"},
}


class _NoShape(Exception):
    pass


def _shape_eval(e: ast.AST, env: dict[str, tuple]):
    """Evaluate a wrapper/kind test over an abstract type shape: ('named', kind) | ('list', s) | ('nonnull', s)."""
    if isinstance(e, ast.BoolOp):
        vals = [_shape_eval(v, env) for v in e.values]
        return all(vals) if isinstance(e.op, ast.And) else any(vals)
    if isinstance(e, ast.UnaryOp) and isinstance(e.op, ast.Not):
        return not _shape_eval(e.operand, env)
    if isinstance(e, ast.Name):
        if e.id in env:
            return env[e.id]
        raise _NoShape(e.id)
    if isinstance(e, ast.Attribute) and e.attr == "of_type":
        s = _shape_eval(e.value, env)
        if isinstance(s, tuple) and s[0] in ("list", "nonnull"):
            return s[1]
        raise _NoShape("of_type of a named type")
    if isinstance(e, ast.Call) and isinstance(e.func, ast.Name) and len(e.args) == 1 and not e.keywords:
        f = e.func.id
        s = _shape_eval(e.args[0], env)
        if not isinstance(s, tuple):
            raise _NoShape(f)
        if f == "is_list_type":
            return s[0] == "list"
        if f == "is_non_null_type":
            return s[0] == "nonnull"
        if f == "is_nullable_type":
            return s[0] != "nonnull"
        if f == "is_wrapping_type":
            return s[0] in ("list", "nonnull")
        if f == "is_named_type":
            return s[0] == "named"
        if f in _KINDS:
            return s[0] == "named" and s[1] in _KINDS[f]
        if f in ("get_nullable_type", "assert_nullable_type"):
            return s[1] if s[0] == "nonnull" else s
        if f == "get_named_type":
            while s[0] != "named":
                s = s[1]
            return s
    raise _NoShape(unparse(e)[:40])


def nonnull_invariant_violation(expr: ast.AST) -> tuple[str, str] | None:
    """For a boolean expression that uses get_named_type(v) and is_list_type(v) on one variable v: a pair of
    shapes (T, T!) on which it decides differently, or None."""
    named = {unparse(c.args[0]) for c in ast.walk(expr) if isinstance(c, ast.Call) and call_name(c) == "get_named_type" and len(c.args) == 1}
    listed = {unparse(c.args[0]) for c in ast.walk(expr) if isinstance(c, ast.Call) and call_name(c) == "is_list_type" and len(c.args) == 1}
    both = [v for v in named & listed if v.isidentifier()]
    if not both:
        return None
    v = both[0]
    for kind in ("scalar", "object", "input"):
        n = ("named", kind)
        for base in (n, ("list", n), ("list", ("nonnull", n)), ("list", ("list", n))):
            try:
                a = _shape_eval(expr, {v: base})
                b = _shape_eval(expr, {v: ("nonnull", base)})
            except _NoShape:
                return None
            if isinstance(a, bool) and isinstance(b, bool) and a != b:
                def show(s):
                    return s[1].capitalize() if s[0] == "named" else (f"[{show(s[1])}]" if s[0] == "list" else show(s[1]) + "!")
                return f"{show(base)} -> {a}", f"{show(('nonnull', base))} -> {b}"
    return None


def nonnull_invariant(check: Check, mods: list, rule: str = "NONNULL-INVARIANT") -> int:
    check.rule(
        rule,
        "a boolean test that looks through the wrappers of a type (get_named_type(t)) and also asks whether t is a "
        "list (is_list_type(t)) is evaluated over the abstract shapes T, [T], [T!], [[T]] and their non-null twins (the "
        "predicates are interpreted, nothing is run): it decides the same for a shape and for the same shape wrapped in "
        "NonNull. `is_leaf_type(get_named_type(t)) and not is_list_type(t)` is True for [Int]! - a non-null inner list "
        "is then completed as if it were a scalar",
    )
    fx = fixture("generic_controls")
    bad = next(x.value for x in ast.walk(fx.get("nonnull_invariant_bad")) if isinstance(x, ast.Return))
    good = next(x.value for x in ast.walk(fx.get("nonnull_invariant_ok")) if isinstance(x, ast.Return))
    check.control(f"{rule}:bad", nonnull_invariant_violation(bad) is not None, True)
    check.control(f"{rule}:ok", nonnull_invariant_violation(good) is not None, False)
    n = 0
    for mod in mods:
        for e in ast.walk(mod.tree):
            if not isinstance(e, (ast.BoolOp, ast.IfExp)) or isinstance(parent(e), ast.BoolOp):
                continue
            test = e.test if isinstance(e, ast.IfExp) else e
            if "get_named_type" not in unparse(test) or "is_list_type" not in unparse(test):
                continue
            r = nonnull_invariant_violation(test)
            n += 1
            check.ob(rule, e, f"{qualname_of(e)}: `{unparse(test)[:80]}`", r is None,
                     "same decision for T and T! on all shapes" if r is None else f"decides {r[0]} but {r[1]}")
    if n == 0:
        check.ob(rule, mods[0].tree, "no test combines get_named_type(t) with is_list_type(t)", True, f"{len(mods)} modules scanned", nontrivial=False)
    return n


def reserved_names(check: Check, repo: Repo, rule: str = "RESERVED-NAME") -> None:
    from rules.language_rules import norm_facts

    check.rule(
        rule,
        "SchemaValidationContext.validate_name is shared by types, fields, arguments, enum values, input fields and "
        "directives: its reserved-name report depends on nothing but `name.startswith('__')` - the must-facts at the "
        "report (locals expanded, constants and plain `is None` presence tests aside) are exactly that one atom, and no "
        "normal path on which it holds reaches the exit without the report. The one exemption (the introspection types "
        "themselves) is made by the caller for *type objects* (is_introspection_type(type_) in validate_types), never by "
        "name inside validate_name, where it would also exempt a field or argument called `__Type`",
    )
    ci = ClassIndex(repo).get("type.validate", "SchemaValidationContext")
    fn = ci.methods().get("validate_name")
    if fn is None:
        raise AnalysisError("SchemaValidationContext.validate_name not found")
    reports = [c for c in walk_body(fn) if isinstance(c, ast.Call) and call_name(c).split(".")[-1] == "report_error"
               and any(isinstance(x, ast.Constant) and isinstance(x.value, str) and "__" in x.value for x in ast.walk(c))]
    if len(reports) != 1:
        raise AnalysisError("validate_name: reserved-name report not found")
    cfg = CFG(fn)
    facts = norm_facts(FactFlow(cfg).facts_at(reports[0]))
    key = next(((t, p) for t, p in facts if t.endswith(".startswith('__')")), None)
    extra = sorted((t, p) for t, p in facts if (t, p) != key and t not in ("True", "False") and not t.endswith(" is None"))
    ok1 = key is not None and key[1] is True and not extra
    check.ob(rule, reports[0], "validate_name: the reserved-name report depends on startswith('__') alone", ok1,
             f"facts at the report: {sorted(facts)}" if ok1 else
             (f"the report additionally requires {extra} - an element named like an exempted name is no longer reported" if key else "not guarded by startswith('__')"))
    # conversely: with the atom true the report is not by-passed
    rn = set(cfg.node_for_expr(reports[0]))

    def follow(a, b, label) -> bool:
        if not no_exc(a, b, label):
            return False
        if label and label[0] == "cond" and unparse(label[1]).endswith(".startswith('__')") and label[2] is False:
            return False
        if label and label[0] == "cond" and isinstance(label[1], ast.Constant) and bool(label[1].value) != label[2]:
            return False  # infeasible edge of a constant test
        return True

    starts = [n for n in cfg.nodes if n.kind == "test" and n.ast is not None and unparse(n.ast).endswith(".startswith('__')")]
    by_pass = None
    for st in starts:
        by_pass = by_pass or cfg.find_path(st, lambda nd: nd is cfg.exit, follow=follow, avoid=lambda nd: nd in rn)
    check.ob(rule, fn, "validate_name: a name that starts with '__' is always reported", by_pass is None and bool(starts),
             "no normal path from the true edge of the test to the exit avoids the report" if by_pass is None and starts else
             ("the report can be skipped: " + cfg.describe_path(by_pass)[-160:] if by_pass else "startswith('__') test not found"))
    vt = ci.methods().get("validate_types")
    calls = [c for c in walk_body(vt) if isinstance(c, ast.Call) and call_name(c).split(".")[-1] == "validate_name"] if vt is not None else []
    if not calls:
        raise AnalysisError("validate_types: validate_name(type_) call not found")


def unvalidated_elements(check: Check, repo: Repo, rule: str = "UNVALIDATED-ELEMENT") -> None:
    from rules.language_rules import norm_facts

    check.rule(
        rule,
        "schema validation inspects schemas that are not valid yet: the entries of `<type>.interfaces` and of "
        "`<union>.types` may be anything (a wrapped type, None, a type of the wrong kind) until the validator itself has "
        "checked them. In type/validate.py an attribute is read from a loop or comprehension variable ranging over such "
        "a collection only under the must-fact of a kind predicate on that variable (is_interface_type(x), "
        "is_object_type(x) ...); getattr(x, name, default) needs none. `{i.name for i in type_.interfaces}` raises "
        "AttributeError for `interfaces=[Node, GraphQLList(Node)]` instead of reporting the entry",
    )
    from sa.mtypes import MTypes

    mt = MTypes.get(repo)
    mod = repo.mod("type.validate")
    n = 0
    for fn in mod.functions():
        if isinstance(fn, ast.Lambda):
            continue
        binders: list[tuple[str, ast.AST]] = []
        # locals that hold such a collection (`a, b = type_.interfaces, iface.interfaces`; `member_types = union.types`)
        holders: set[str] = set()
        for s_ in walk_body(fn):
            if isinstance(s_, ast.Assign) and len(s_.targets) == 1:
                t, v = s_.targets[0], s_.value
                pairs = list(zip(t.elts, v.elts)) if isinstance(t, ast.Tuple) and isinstance(v, ast.Tuple) and len(t.elts) == len(v.elts) else [(t, v)]
                for tt, vv in pairs:
                    if isinstance(tt, ast.Name) and isinstance(vv, ast.Attribute) and vv.attr in ("interfaces", "types"):
                        holders.add(tt.id)

        def unchecked(it: ast.AST) -> bool:
            if "language.ast" in (mt.type_of(it) or ""):
                return False  # a tuple of NamedTypeNode built by the parser, not a collection of the type system
            return (isinstance(it, ast.Attribute) and it.attr in ("interfaces", "types")) or (isinstance(it, ast.Name) and it.id in holders)

        for x in walk_body(fn):
            gens = x.generators if isinstance(x, (ast.ListComp, ast.SetComp, ast.DictComp, ast.GeneratorExp)) else []
            for g in gens:
                if isinstance(g.target, ast.Name) and unchecked(g.iter):
                    binders.append((g.target.id, x))
            if isinstance(x, ast.For) and isinstance(x.target, ast.Name) and unchecked(x.iter):
                binders.append((x.target.id, x))
        if not binders:
            continue
        flow = FactFlow(CFG(fn))
        for var, scope in binders:
            for a in ast.walk(scope):
                if not (isinstance(a, ast.Attribute) and isinstance(a.ctx, ast.Load) and isinstance(a.value, ast.Name) and a.value.id == var):
                    continue
                n += 1
                facts = norm_facts(flow.facts_at(a))
                tested = sorted(t for t, p in facts if p and t.startswith("is_") and t.endswith(f"({var})"))
                check.ob(rule, a, f"{qualname_of(a)}: `{unparse(a)}` on an entry of `{unparse(scope.iter) if isinstance(scope, ast.For) else '...'}`", bool(tested),
                         f"under {tested[0]}" if tested else f"`{var}` has not been kind-checked here: a malformed entry raises AttributeError out of validate_schema")
    if n < 3:
        raise AnalysisError("UNVALIDATED-ELEMENT: element attribute reads not found in type/validate.py")


def deprecation_direction(check: Check, repo: Repo, rule: str = "DEPRECATION-DIRECTION") -> None:
    import itertools as _it

    from rules.language_rules import _BoolFold

    check.rule(
        rule,
        "validate_type_implements_interface: the 'must not be deprecated' report, folded over the four combinations of "
        "{implementation field deprecated, interface field deprecated} (the flag computation before it included), is made "
        "exactly for (deprecated, not deprecated). The other asymmetric case - the interface field is deprecated, an "
        "implementation keeps its field un-deprecated - is legal; a check made symmetric (`a != b`) rejects a valid schema "
        "and, through assert_valid_schema, every request against it, the introspection query included",
    )
    ci = ClassIndex(repo).get("type.validate", "SchemaValidationContext")
    fn = ci.methods().get("validate_type_implements_interface")
    if fn is None:
        raise AnalysisError("validate_type_implements_interface not found")
    guards = [i for i in walk_body(fn) if isinstance(i, ast.If) and any(
        isinstance(x, ast.Constant) and isinstance(x.value, str) and "must not be deprecated" in x.value for s in i.body for x in ast.walk(s))]
    if len(guards) != 1:
        raise AnalysisError("validate_type_implements_interface: deprecation report not found")
    g = guards[0]
    # flags assigned before the test, in the same block
    blk = parent(g)
    body = getattr(blk, "body", [])
    prefix = [s for s in body[: body.index(g)] if isinstance(s, ast.Assign) and len(s.targets) == 1 and isinstance(s.targets[0], ast.Name)] if g in body else []
    T, I = "type_field.deprecation_reason is None", "iface_field.deprecation_reason is None"
    bad = []
    for t_dep, i_dep in _it.product((False, True), repeat=2):
        fold = _BoolFold()
        val = {T: not t_dep, I: not i_dep}
        env: dict = {}
        for s in prefix[-4:]:
            if any(isinstance(x, ast.Attribute) and x.attr == "deprecation_reason" for x in ast.walk(s.value)):
                env[s.targets[0].id] = fold.ev(s.value, env, val)
        got = bool(fold.ev(g.test, env, val))
        unknown = [a for a in fold.atoms if a not in (T, I)]
        if unknown:
            raise AnalysisError(f"validate_type_implements_interface: deprecation test uses other atoms {unknown}")
        want = t_dep and not i_dep
        if got != want:
            bad.append(f"implementation {'deprecated' if t_dep else 'not deprecated'} / interface {'deprecated' if i_dep else 'not deprecated'}: reported={got}, expected {want}")
    check.ob(rule, g, f"deprecation report under `{unparse(g.test)[:70]}`", not bad, "4 of 4 cells" if not bad else "; ".join(bad))


REFERENCED_TABLE = {
    "union": {"types[]"},
    "object": {"interfaces[]", "fields[].type", "fields[].args[].type"},
    "interface": {"interfaces[]", "fields[].type", "fields[].args[].type"},
    "input_object": {"fields[].type"},
}


def referenced_complete(check: Check, repo: Repo, rule: str = "REFERENCED-COMPLETE") -> None:
    check.rule(
        rule,
        "TypeSet.collect_referenced_types - what builds the type map of a schema assembled in code - follows, for each kind "
        "of named type, every place where that kind mentions another type: union members; interfaces, field types and "
        "field argument types of objects *and* interfaces; field types of input objects. Each (kind, reference) of this "
        "table is the argument of a recursive call guarded by a test for that kind. A kind whose branch leaves out a "
        "reference (say the argument types of interface fields) yields a schema that prints a type name it does not define",
    )
    fn = repo.func("type.schema", "TypeSet.collect_referenced_types")
    aliases = {fn.name} | {t.id for s in walk_body(fn) if isinstance(s, ast.Assign) and unparse(s.value) == f"self.{fn.name}" for t in s.targets if isinstance(t, ast.Name)}
    calls = [c for c in walk_body(fn) if isinstance(c, ast.Call) and ((isinstance(c.func, ast.Name) and c.func.id in aliases) or unparse(c.func) == f"self.{fn.name}") and c.args]
    if not calls:
        raise AnalysisError("collect_referenced_types: recursive calls not found")
    subject = None
    for s in walk_body(fn):
        if isinstance(s, ast.Assign) and isinstance(s.value, ast.Call) and call_name(s.value).endswith("get_named_type") and isinstance(s.targets[0], ast.Name):
            subject = s.targets[0].id
    if subject is None:
        raise AnalysisError("collect_referenced_types: the named type under inspection not found")

    def chain(e: ast.AST, at: ast.AST) -> str:
        if isinstance(e, ast.Attribute):
            return f"{chain(e.value, at)}.{e.attr}".lstrip(".")
        if isinstance(e, ast.Call) and isinstance(e.func, ast.Attribute) and e.func.attr in ("values", "items") and not e.args:
            return chain(e.func.value, at)
        if isinstance(e, ast.Name):
            if e.id == subject:
                return ""
            for a in ancestors(at):
                if isinstance(a, (ast.For, ast.comprehension)):
                    tg = a.target
                    names = [tg] if isinstance(tg, ast.Name) else [x for x in getattr(tg, "elts", []) if isinstance(x, ast.Name)]
                    if any(x.id == e.id for x in names):
                        return chain(a.iter, a) + "[]"
            return f"?{e.id}"
        return "?" + unparse(e)

    covered: dict[str, set[str]] = {k: set() for k in REFERENCED_TABLE}
    for c in calls:
        ch = chain(c.args[0], c)
        kinds: set[str] = set()
        child: ast.AST = c
        for a in ancestors(c):
            if isinstance(a, ast.If) and any(child is s for s in a.body):
                for t in ast.walk(a.test):
                    if isinstance(t, ast.Call) and t.args and unparse(t.args[0]) == subject:
                        nm = call_name(t).split(".")[-1]
                        if nm.startswith("is_") and nm.endswith("_type"):
                            kinds.add(nm[3:-5])
                        elif nm == "isinstance" and len(t.args) == 2:
                            for cl in ast.walk(t.args[1]):
                                if isinstance(cl, ast.Name) and cl.id.startswith("GraphQL") and cl.id.endswith("Type"):
                                    kinds.add({"Object": "object", "Interface": "interface", "Union": "union", "InputObject": "input_object"}.get(cl.id[7:-4], cl.id))
            child = a
        for k in kinds & set(covered):
            covered[k].add(ch)
    for k, want in REFERENCED_TABLE.items():
        for ref in sorted(want):
            ok = ref in covered[k]
            check.ob(rule, fn, f"collect_referenced_types: {k}.{ref}", ok,
                     "followed under a test for the kind" if ok else
                     f"no recursive call follows `{ref}` of {k} types (followed for this kind: {sorted(covered[k]) or 'nothing'}): a type "
                     "mentioned only there never reaches the type map")
    check.floor(rule, 8, "(kind, reference) pairs")


def cycle_edge_by_type(check: Check, repo: Repo, rule: str = "CYCLE-EDGE") -> None:
    from rules.language_rules import enclosing_conditions, norm_facts

    check.rule(
        rule,
        "an input object cycle is unbreakable when every field on it is non-null - whether such a field has a default "
        "does not matter (a default that has to contain itself is no way out, and legacy `default_value`s are not even "
        "validated). In InputObjectNonNullCircularRefsValidator.__call__ the edge of the search (the place that pushes "
        "onto field_path) is therefore taken under tests about `field.type` alone, one of them the non-null test; a test "
        "of the field's requiredness or default makes the validator accept A.b: B! = {...} -> B.a: A! with an empty "
        "error list",
    )
    fn = repo.func("type.validate", "InputObjectNonNullCircularRefsValidator.__call__")
    pushes = [c for c in walk_body(fn) if isinstance(c, ast.Call) and isinstance(c.func, ast.Attribute) and c.func.attr == "append" and "field_path" in unparse(c.func.value)]
    if not pushes:
        raise AnalysisError("InputObjectNonNullCircularRefsValidator: push onto field_path not found")
    loops = [l for l in walk_body(fn) if isinstance(l, ast.For) and any(p in list(ast.walk(l)) for p in pushes)]
    if not loops:
        raise AnalysisError("InputObjectNonNullCircularRefsValidator: field loop not found")
    tg = loops[0].target
    fvars = {x.id for x in ast.walk(tg) if isinstance(x, ast.Name)}
    flow = FactFlow(CFG(fn))
    for p in pushes:
        facts = norm_facts(flow.facts_at(p)) | enclosing_conditions(p)
        foreign = []
        nonnull = False
        for t, pol in sorted(facts):
            try:
                e = ast.parse(t, mode="eval").body
            except SyntaxError:
                continue
            for x in ast.walk(e):
                for ch in ast.iter_child_nodes(x):
                    ch.parent = x  # type: ignore[attr-defined]
            uses = [x for x in ast.walk(e) if isinstance(x, ast.Name) and x.id in fvars]
            if not uses:
                continue
            if any(not (isinstance(getattr(x, "parent", None), ast.Attribute) and x.parent.attr == "type") for x in uses):  # type: ignore[attr-defined]
                foreign.append(f"{'' if pol else 'not '}{t}")
            if pol and (("is_non_null_type(" in t) or ("GraphQLNonNull" in t)):
                nonnull = True
        ok = nonnull and not foreign
        check.ob(rule, p, "InputObjectNonNullCircularRefsValidator: edge condition", ok,
                 "the edge is taken for non-null fields, by type alone" if ok else
                 (f"the edge depends on {foreign} - more than the field's type" if foreign else "no non-null test on the field's type guards the edge"))
    check.floor(rule, 1, "edge of the non-null cycle search")
