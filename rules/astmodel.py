"""Static model of graphql.language.ast: node classes, fields, kinds, families."""

from __future__ import annotations

import ast
import re
from dataclasses import dataclass, field

from sa.loader import AnalysisError, Repo, call_name, unparse


@dataclass
class Field:
    name: str
    annotation: str
    has_default: bool
    owner: str
    node_valued: bool = False
    is_collection: bool = False
    optional: bool = False


@dataclass
class NodeClass:
    name: str
    bases: list[str]
    node: ast.ClassDef
    own_fields: list[Field] = field(default_factory=list)
    classvars: set[str] = field(default_factory=set)
    fields: list[Field] = field(default_factory=list)  # MRO-merged, dataclass order
    kind: str = ""
    abstract: bool = False
    ancestors: list[str] = field(default_factory=list)


class AstModel:
    def __init__(self, repo: Repo) -> None:
        self.repo = repo
        mod = repo.mod("language.ast")
        self.mod = mod
        self.classes: dict[str, NodeClass] = {}
        self.aliases: dict[str, set[str]] = {}
        # camel_to_snake as defined by the repo
        cc = repo.mod("pyutils.convert_case")
        pat_expr = cc.toplevel_assign("_re_camel_to_snake")
        if not (isinstance(pat_expr, ast.Call) and pat_expr.args and isinstance(pat_expr.args[0], ast.Constant)):
            raise AnalysisError("anchor missing: pyutils.convert_case._re_camel_to_snake pattern")
        self._camel = re.compile(pat_expr.args[0].value)
        for stmt in mod.tree.body:
            if isinstance(stmt, ast.ClassDef) and any(
                (isinstance(d, ast.Name) and d.id == "node_class") for d in stmt.decorator_list
            ):
                nc = NodeClass(stmt.name, [unparse(b) for b in stmt.bases], stmt)
                for s in stmt.body:
                    if isinstance(s, ast.AnnAssign) and isinstance(s.target, ast.Name):
                        ann = unparse(s.annotation)
                        if ann.startswith("ClassVar"):
                            nc.classvars.add(s.target.id)
                            continue
                        nc.own_fields.append(Field(s.target.id, ann, s.value is not None, stmt.name))
                self.classes[stmt.name] = nc
        if "Node" not in self.classes or len(self.classes) < 40:
            raise AnalysisError(f"ast model: only {len(self.classes)} node classes found")
        # type aliases (unions of node classes)
        for stmt in mod.tree.body:
            if isinstance(stmt, ast.AnnAssign) and isinstance(stmt.target, ast.Name) and stmt.value is not None:
                if unparse(stmt.annotation) == "TypeAlias":
                    names = {n.id for n in ast.walk(stmt.value) if isinstance(n, ast.Name)}
                    self.aliases[stmt.target.id] = names
        for nc in self.classes.values():
            nc.ancestors = self._ancestors(nc.name)
        for nc in self.classes.values():
            self._merge_fields(nc)
            nc.kind = self.kind_of(nc.name)
        for nc in self.classes.values():
            nc.abstract = nc.name == "Node" or any(
                nc.name in o.bases and o.kind != nc.kind for o in self.classes.values()
            )

    def _ancestors(self, name: str) -> list[str]:
        out = []
        cur = name
        while True:
            bases = [b for b in self.classes[cur].bases if b in self.classes]
            if not bases:
                break
            if len(bases) > 1:
                raise AnalysisError(f"ast model: multiple node bases for {cur}")
            cur = bases[0]
            out.append(cur)
        return out

    def kind_of(self, cls_name: str) -> str:
        name = cls_name.removeprefix("Const").removesuffix("Node")
        return self._camel.sub(r"\1_", name).lower()

    def _merge_fields(self, nc: NodeClass) -> None:
        order: list[str] = []
        byname: dict[str, Field] = {}
        for cname in [*reversed(nc.ancestors), nc.name]:
            for f in self.classes[cname].own_fields:
                if f.name not in byname:
                    order.append(f.name)
                byname[f.name] = f
        nc.fields = []
        for n in order:
            f = byname[n]
            g = Field(f.name, f.annotation, f.has_default, f.owner)
            self._classify(g)
            nc.fields.append(g)

    def is_node_type_name(self, name: str) -> bool:
        if name in self.classes:
            return True
        if name in self.aliases:
            return any(self.is_node_type_name(n) for n in self.aliases[name] if n != name)
        return False

    def _classify(self, f: Field) -> None:
        try:
            tree = ast.parse(f.annotation, mode="eval").body
        except SyntaxError as e:
            raise AnalysisError(f"cannot parse annotation {f.annotation}") from e
        names = {n.id for n in ast.walk(tree) if isinstance(n, ast.Name)}
        f.node_valued = any(self.is_node_type_name(n) for n in names)
        f.is_collection = "tuple" in names or "list" in names
        f.optional = "None" in f.annotation

    def concrete(self) -> list[NodeClass]:
        return [c for c in self.classes.values() if not c.abstract]

    def kinds(self) -> dict[str, list[NodeClass]]:
        out: dict[str, list[NodeClass]] = {}
        for c in self.concrete():
            out.setdefault(c.kind, []).append(c)
        return out

    def subclasses(self, base: str, concrete_only: bool = True) -> list[NodeClass]:
        return [
            c
            for c in self.classes.values()
            if base in c.ancestors and (not concrete_only or not c.abstract)
        ]

    def family(self, name: str) -> set[str]:
        """Concrete class names denoted by a class name or alias name."""
        if name in self.aliases:
            out: set[str] = set()
            for n in self.aliases[name]:
                if n != name:
                    out |= self.family(n)
            return out
        if name in self.classes:
            c = self.classes[name]
            out = {s.name for s in self.subclasses(name)}
            if not c.abstract:
                out.add(name)
            return out
        return set()
