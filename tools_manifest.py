#!/venv/bin/python
"""Regenerate MANIFEST.json from the check modules present (keeps it valid at all times)."""
import importlib
import json
import os
import sys

HERE = os.path.dirname(os.path.abspath(__file__))
sys.path.insert(0, HERE)
sys.dont_write_bytecode = True

ALL = [f"C{i:02d}" for i in range(1, 21)]
BASELINE = "cd /repo && /venv/bin/python -m pytest -q -p no:cacheprovider --timeout=900 -n 8"

NA_DEFAULT = "no check registered yet for this property in this revision of /verif"


def main() -> None:
    checks, na = [], []
    fixes = json.load(open(os.path.join(HERE, "known_findings.json")))
    for pid in ALL:
        path = os.path.join(HERE, "checks", pid.lower() + ".py")
        mod = importlib.import_module(f"checks.{pid.lower()}") if os.path.exists(path) else None
        if mod is None or getattr(mod, "NOT_APPLICABLE", None):
            na.append({"property_id": pid, "reason": getattr(mod, "NOT_APPLICABLE", NA_DEFAULT)})
            continue
        checks.append(
            {
                "property_id": pid,
                "quick_cmd": f"./check {pid} --tier quick",
                "thorough_cmd": f"./check {pid} --tier thorough",
                "evidence_file": f"/verif/evidence/{pid}.json",
                "replay_cmd_template": f"./check {pid} --replay {{path}}",
                "engine": "sa",
                "level_claimed": {
                    "category": "other",
                    "text": mod.LEVEL_TEXT,
                    "design_ref": f"DESIGN.md §4 {pid}",
                },
                "level_note": mod.LEVEL_NOTE,
                "technique": mod.TECHNIQUE,
            }
        )
    manifest = {
        "version": 1,
        "setup_cmd": "true",
        "hooks": {
            "guard": "GRAPHQL_CORE_VERIF",
            "enable": "none: the checks read /repo/src/graphql as text; no instrumentation exists",
            "baseline_off_cmd": BASELINE,
            "source_commits": sorted({e["commit"] for e in fixes.get("fixed", []) if e.get("commit")}),
            "add_only": True,
        },
        "engines": [
            {
                "name": "sa",
                "path": "/verif/sa",
                "serves_properties": [c["property_id"] for c in checks],
                "kind_free_text": "repository-specific static analysis on Python ast: statement CFG, "
                "must-facts dataflow with linear entailment, constant-table evaluation, "
                "write-effect/alias and call-graph rules; nothing under /repo is imported or run",
            }
        ],
        "checks": checks,
        "not_applicable": na,
        "notes": "All claims are partial (category 'other'): each check decides stated structural "
        "necessary conditions of its property on every path of the current source, not the "
        "behavioural property as a whole. hooks.source_commits lists only unguarded 'fix:' commits "
        "(genuine defects, see known_findings.json); no hook/instrumentation commits exist. "
        "Exit 2 = ANALYSIS-ERROR (anchor vanished / floor not met), never a violation.",
    }
    json.dump(manifest, open(os.path.join(HERE, "MANIFEST.json"), "w"), indent=1)
    print(f"MANIFEST.json: {len(checks)} checks, {len(na)} not_applicable")


if __name__ == "__main__":
    main()
